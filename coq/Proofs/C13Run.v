(* C13 at run level: the placement invariants in every snapshot of every run. *)
From Coq Require Import List ZArith QArith Bool Arith Lia Lqa Permutation.
From PV Require Import Model.Types Model.Sim Proofs.Base Proofs.Frames Proofs.Proj Proofs.RunLemmas Proofs.C01Proof Proofs.C02Proof
  Proofs.QSum Proofs.C11Proof Proofs.C13Proof.
Import ListNotations.
Open Scope nat_scope.

Section Run.
Variable c : cfg.

Notation plc := (fun s : pstate => (cd s, wpc s)).

Lemma pw_product_check_state s k : pw (cd (product_check_state c s) k) = pw (cd s k).
Proof.
  unfold product_check_state. cbn [cd with_cd]. rewrite tab_spec. destruct (k <? nC c); reflexivity.
Qed.

(* ------------------------------------ an invariant principle for the step *)
(* P s moved: any predicate on the placement records (and the list of the
   components moved so far in this step) that ignores everything else and
   survives one placement *)
Section Principle.
Variable P : pstate -> list nat -> Prop.
Hypothesis P_frame : forall s s' m, (forall k, pw (cd s' k) = pw (cd s k)) -> wpc s' = wpc s -> P s m -> P s' m.
Hypothesis P_place : forall s m t k p, placed_ok c s m t k p -> P s m ->
  P (attach_tree c (detach_tree c s k) p k) (m ++ tree c k).

Lemma P_same s s' m : plc s' = plc s -> P s m -> P s' m.
Proof. intros E. injection E as E1 E2. apply P_frame; [intros k; rewrite E1; reflexivity|exact E2]. Qed.

Lemma P_alloc_task acc t : P (fst (fst acc)) (snd acc) ->
  P (fst (fst (alloc_task c acc t))) (snd (alloc_task c acc t)).
Proof.
  destruct acc as [[s free] moved]. cbn [fst snd]. intros H. unfold alloc_task.
  pose proof (place_for_spec c s moved t) as Hp. cbv zeta in Hp.
  destruct (place_for c s moved t) as [s1 m1]. cbn [fst snd] in Hp.
  assert (H1 : P s1 m1).
  { destruct Hp as [[-> ->]|(k & p & Hok & -> & ->)]; [exact H|apply (P_place s moved t k p Hok H)]. }
  destruct (t_auto c t); cbn [fst snd]; [exact H1|].
  destruct (t_needfac c t).
  - pose proof (pi_alloc_with_facility c _ plc (fun _ _ => eq_refl) (fun _ _ => eq_refl) (fun _ _ => eq_refl) s1 free t) as E.
    destruct (alloc_with_facility c s1 free t) as [s2 f2]. cbn [fst snd] in *. apply (P_same s1 s2 m1 E H1).
  - pose proof (pi_alloc_workers c _ plc (fun _ _ => eq_refl) (fun _ _ => eq_refl) s1 free t) as E.
    destruct (alloc_workers c s1 free t) as [s2 f2]. cbn [fst snd] in *. apply (P_same s1 s2 m1 E H1).
Qed.

Lemma P_allocate o s : P s [] -> exists m, P (allocate c o s) m.
Proof.
  intros H. unfold allocate.
  assert (G : forall l' a', P (fst (fst a')) (snd a') ->
              P (fst (fst (fold_left (alloc_task c) l' a'))) (snd (fold_left (alloc_task c) l' a'))).
  { induction l' as [|t l' IH]; intros a' Ha; cbn [fold_left]; [exact Ha|]. apply IH. apply P_alloc_task. exact Ha. }
  eexists. apply G. exact H.
Qed.

Lemma P_step_allocate o s : P s [] -> exists m, P (step_allocate c o s) m.
Proof.
  intros H. unfold step_allocate.
  set (w := negb (mem (time s) (o_abs o))).
  assert (H1 : P (absence_update c w s) []).
  { apply (P_same s); [|exact H]. apply (pi_absence_update c _ plc); reflexivity. }
  assert (H2 : exists m, P (if w then allocate c o (absence_update c w s) else absence_update c w s) m).
  { destruct w; [apply P_allocate; exact H1|exists []; exact H1]. }
  destruct (w || o_auto_abs o); [|exact H2].
  destruct H2 as [m H2]. exists m.
  set (x := if w then allocate c o (absence_update c w s) else absence_update c w s) in *.
  assert (H3 : P (check_working c x) m).
  { apply (P_same x); [|exact H2]. apply (pi_check_working c _ plc); reflexivity. }
  apply (P_frame (check_working c x)); [intros k; apply pw_product_check_state|reflexivity|exact H3].
Qed.

(* the other phases do not touch the placement records *)
Lemma P_step_perform o s m : P s m -> P (step_perform c o s) m.
Proof.
  intros H. apply (P_same s); [|exact H]. unfold step_perform.
  destruct (negb (mem (time s) (o_abs o))); [reflexivity|]. destruct (o_auto_abs o); reflexivity.
Qed.
Lemma P_step_record o s m : P s m -> P (step_record c o s) m.
Proof. intros H. apply (P_same s); [reflexivity|exact H]. Qed.
End Principle.

(* --------------------------------------------------------- (a) consistency *)
Hypothesis HF : Forest c.

Lemma PInv_update o s : PInv s -> PInv (update c o s).
Proof.
  intros H. unfold update.
  set (s1 := check_finished c s).
  assert (H1 : PInv s1).
  { apply (PInv_ext s); [| |exact H].
    - intros k. unfold s1. rewrite (pi_check_finished c _ cd) by reflexivity. reflexivity.
    - unfold s1. apply (pi_check_finished c _ wpc); reflexivity. }
  assert (H2 : PInv (product_check_state c s1))
    by (apply (PInv_ext s1); [intros k; apply pw_product_check_state|reflexivity|exact H1]).
  assert (H3 : PInv (check_removing c (o_crank o) (product_check_state c s1))).
  { (* consistency does not need the visit order to be complete *)
    unfold check_removing.
    assert (G : forall l a, PInv a -> PInv (fold_left (detach_tree c) l a)).
    { induction l as [|x l IH]; intros a Ha; cbn [fold_left]; [exact Ha|]. apply IH. apply (PInv_detach_tree c a x Ha). }
    apply G. exact H2. }
  set (s3 := check_removing c (o_crank o) (product_check_state c s1)) in *.
  assert (H4 : PInv (check_ready c s3)) by (apply (PInv_ext s3); [intros k; reflexivity|reflexivity|exact H3]).
  assert (H5 : PInv (product_check_state c (check_ready c s3)))
    by (apply (PInv_ext (check_ready c s3)); [intros k; apply pw_product_check_state|reflexivity|exact H4]).
  apply (PInv_ext (product_check_state c (check_ready c s3))); [| |exact H5].
  - intros k. rewrite (pi_update_pert c _ cd) by reflexivity. reflexivity.
  - apply (pi_update_pert c _ wpc); reflexivity.
Qed.

(* (a) + (d): consistency, and no component moves twice in one step *)
Definition PM (s : pstate) (m : list nat) : Prop := PInv s /\ NoDup m.

Lemma PM_frame s s' m : (forall k, pw (cd s' k) = pw (cd s k)) -> wpc s' = wpc s -> PM s m -> PM s' m.
Proof. intros E1 E2 [A B]. split; [apply (PInv_ext s); assumption|exact B]. Qed.
Lemma PM_place s m t k p : placed_ok c s m t k p -> PM s m -> PM (attach_tree c (detach_tree c s k) p k) (m ++ tree c k).
Proof.
  intros Hok [A B]. split; [apply (proj1 (PInv_place c s k p HF A))|].
  apply NoDup_app_both; [exact B|apply HF|]. intros x Hx Hx'. apply (proj1 (po_idle c s m t k p Hok x Hx') Hx).
Qed.

Theorem allocate_moves_once o s : PInv s ->
  let r := fold_left (alloc_task c)
             (sort_tasks c (o_rule o) s (filter (fun t => is_ready (st (td s t)) || is_working (st (td s t))) (tasks c)))
             (s, filter (fun w => rstate_eqb (rst (wd s w)) RFree) (all_workers c), []) in
  allocate c o s = fst (fst r) /\ PInv (fst (fst r)) /\ NoDup (snd r).
Proof.
  intros H. cbv zeta. split; [reflexivity|].
  match goal with |- PInv (fst (fst (fold_left _ ?l ?a))) /\ _ =>
    assert (G : forall l' a', PM (fst (fst a')) (snd a') ->
              PM (fst (fst (fold_left (alloc_task c) l' a'))) (snd (fold_left (alloc_task c) l' a'))) end.
  { induction l' as [|t l' IH]; intros a' Ha; cbn [fold_left]; [exact Ha|]. apply IH.
    apply (P_alloc_task PM PM_frame PM_place). exact Ha. }
  apply G. split; [exact H|constructor].
Qed.

Lemma PInv_step_allocate o s : PInv s -> PInv (step_allocate c o s).
Proof.
  intros H. destruct (P_step_allocate PM PM_frame PM_place o s (conj H (NoDup_nil _))) as [m [A _]]. exact A.
Qed.

Lemma initialize_unplaced o s : o_init_state o = true ->
  (forall k, pw (cd (initialize c o s) k) = None) /\ (forall p, wpc (initialize c o s) p = []).
Proof.
  intros Hs. unfold initialize. rewrite Hs.
  match goal with |- context [check_ready c (update_pert c 0 (with_cpl ?x 0%Q))] => set (s1 := x) end.
  set (s2 := check_ready c (update_pert c 0 (with_cpl s1 0%Q))).
  assert (Ecd : cd s2 = cd s1).
  { unfold s2. rewrite (pi_check_ready c _ cd), (pi_update_pert c _ cd) by reflexivity. reflexivity. }
  assert (Ewp : wpc s2 = wpc s1).
  { unfold s2. rewrite (pi_check_ready c _ wpc), (pi_update_pert c _ wpc) by reflexivity. reflexivity. }
  split.
  - intros k. cbn [cd with_cd]. rewrite tab_spec. destruct (k <? nC c); [reflexivity|].
    rewrite Ecd. unfold s1. cbn [cd]. rewrite tab_spec. destruct (k <? nC c); reflexivity.
  - intros p. cbn [wpc with_cd]. rewrite Ewp. unfold s1. cbn [wpc]. rewrite tab_spec. destruct (p <? nWP c); reflexivity.
Qed.

Lemma PInv_initialize o s : o_init_state o = true -> PInv (initialize c o s).
Proof.
  intros Hs. destruct (initialize_unplaced o s Hs) as [A B]. split.
  - intros k p. rewrite A, B. split; [intros []|discriminate].
  - intros p. rewrite B. constructor.
Qed.

Theorem PInv_all_runs o s : (o_init_state o = true \/ PInv s) ->
  Forall (fun ob : obs => PInv (snd ob)) (snd (simulate c o s)) /\ PInv (fst (simulate c o s)).
Proof.
  intros Hstart. destruct (simulate_trace c o s) as (tr & Htr & Esnd). rewrite Esnd.
  assert (H0 : PInv (initialize c o s)).
  { destruct (o_init_state o) eqn:E; [apply PInv_initialize; exact E|].
    destruct Hstart as [H|H]; [discriminate|]. unfold initialize. rewrite E. exact H. }
  destruct (trace_invariant c o PInv PInv PInv PInv PInv
              (fun x Hx => PInv_update o x Hx)
              (fun x Hx => PInv_step_allocate o x Hx)
              (fun x Hx => PInv_ext x (step_perform c o x)
                             ltac:(intros k; unfold step_perform; destruct (negb (mem (time x) (o_abs o))); [reflexivity|destruct (o_auto_abs o); reflexivity])
                             ltac:(unfold step_perform; destruct (negb (mem (time x) (o_abs o))); [reflexivity|destruct (o_auto_abs o); reflexivity]) Hx)
              (fun x Hx => PInv_ext x (step_record c o x) (fun k => eq_refl) eq_refl Hx)
              (fun x Hx => PInv_ext x (with_time x (S (time x))) (fun k => eq_refl) eq_refl Hx)
              _ _ _ Htr H0) as [Hall (su & Hsu & x & Ex)].
  split.
  - eapply Forall_impl; [|exact Hall]. intros [[k ph] sn]. cbn. destruct ph; exact (fun h => h).
  - rewrite Ex. exact Hsu.
Qed.


(* ------------------------------------------------- (e) finished assemblies *)
Theorem update_removes o s : PInv s -> (forall k, k < nC c -> In k (o_crank o)) ->
  let u := update c o s in
  forall k, removable c u k -> forall k', In k' (tree c k) -> pw (cd u k') = None.
Proof.
  intros H Hcr u k Hrem k' Hk'.
  set (s1 := check_finished c s).
  assert (H1 : PInv s1).
  { apply (PInv_ext s); [| |exact H].
    - intros x. unfold s1. rewrite (pi_check_finished c _ cd) by reflexivity. reflexivity.
    - unfold s1. apply (pi_check_finished c _ wpc); reflexivity. }
  set (s2 := product_check_state c s1).
  assert (H2 : PInv s2) by (apply (PInv_ext s1); [intros x; apply pw_product_check_state|reflexivity|exact H1]).
  destruct (check_removing_spec c (o_crank o) s2 H2 Hcr) as (_ & R & _).
  set (s3 := check_removing c (o_crank o) s2) in *.
  assert (Hrem2 : removable c s2 k).
  { destruct Hrem as (A & B & D). split; [exact A|]. split; [exact B|].
    intros x Hx. specialize (D x Hx). unfold comp_all_fin in *. rewrite forallb_forall in *.
    intros t Ht. specialize (D t Ht). apply is_fin_true in D. apply is_fin_true.
    apply (proj1 (C02Proof.stof_update_fin c o s t)) in D. exact D. }
  assert (E : pw (cd u k') = pw (cd s3 k')).
  { unfold u, update. fold s1. fold s2. fold s3.
    rewrite (pi_update_pert c _ cd) by reflexivity. rewrite pw_product_check_state. reflexivity. }
  rewrite E. apply (R k Hrem2 k' Hk').
Qed.

(* ------------------------------------------- (b) capacity, flat products *)
Definition Flat : Prop := forall k, c_children c k = [].
Definition used (s : pstate) (p : nat) : Q := qsum (map (c_size c) (wpc s p)).
Definition CapInv (s : pstate) : Prop := forall p, (used s p < wp_cap c p + tol_space)%Q.

Hypothesis size_nonneg : forall k, (0 <= c_size c k)%Q.

Lemma qsum_remove_first_le k l : (qsum (map (c_size c) (remove_first k l)) <= qsum (map (c_size c) l))%Q.
Proof.
  induction l as [|x l IH]; cbn [remove_first map]; [lra|].
  destruct (Nat.eqb k x); cbn [map]; rewrite ?qsum_cons; [pose proof (size_nonneg x); lra|lra].
Qed.

Lemma used_detach_one s k p : (used (detach_one s k) p <= used s p)%Q.
Proof.
  unfold used, detach_one. destruct (pw (cd s k)) as [q|]; [|lra].
  cbn [wpc with_cd with_wpc]. rewrite upd_eq. destruct (Nat.eqb p q) eqn:E; [|lra].
  apply Nat.eqb_eq in E. subst q. apply qsum_remove_first_le.
Qed.
Lemma used_detach_list l : forall s p, (used (fold_left detach_one l s) p <= used s p)%Q.
Proof.
  induction l as [|x l IH]; intros s p; cbn [fold_left]; [lra|].
  pose proof (IH (detach_one s x) p). pose proof (used_detach_one s x p). lra.
Qed.

Lemma tree_flat k : Flat -> tree c k = [k].
Proof. intros Hf. unfold tree. destruct (nC c); cbn [tree_nodes]; [reflexivity|]. rewrite Hf. reflexivity. Qed.

Lemma CapInv_place s m t k p : Flat -> placed_ok c s m t k p -> PInv s /\ CapInv s ->
  CapInv (attach_tree c (detach_tree c s k) p k).
Proof.
  intros Hf Hok [HP HC] q.
  destruct (PInv_detach_tree c s k HP) as ([D1 D2] & D3 & _).
  set (s1 := detach_tree c s k) in *.
  assert (Hk : ~ In k (wpc s1 p)).
  { intros F. apply D1 in F. rewrite (D3 k) in F; [discriminate|]. rewrite (tree_flat k Hf). left. reflexivity. }
  assert (Hle : forall r, (used s1 r <= used s r)%Q) by (intros r; apply used_detach_list).
  unfold used, attach_tree. cbn [wpc with_cd with_wpc]. rewrite upd_eq.
  destruct (Nat.eqb q p) eqn:E; [|apply Qle_lt_trans with (y := used s q); [apply Hle|apply HC]].
  apply Nat.eqb_eq in E. subst q.
  assert (Espc : set_placed_comp c (nC c) p (wpc s1 p) k = wpc s1 p ++ [k]).
  { destruct (nC c); cbn [set_placed_comp]; (destruct (mem k (wpc s1 p)) eqn:Em; [apply mem_In in Em; contradiction|]); [reflexivity|].
    rewrite Hf. reflexivity. }
  rewrite Espc, map_app, qsum_app. cbn [map]. rewrite qsum_cons.
  pose proof (po_space c s m t k p Hok) as Hs. unfold avail_space in Hs. fold (used s p) in Hs.
  pose proof (Hle p). fold (used s1 p). change (qsum []) with 0%Q. lra.
Qed.

Definition PC (s : pstate) (m : list nat) : Prop := PInv s /\ CapInv s.
Lemma PC_frame s s' m : (forall k, pw (cd s' k) = pw (cd s k)) -> wpc s' = wpc s -> PC s m -> PC s' m.
Proof.
  intros E1 E2 [A B]. split; [apply (PInv_ext s); assumption|]. intros p. unfold used. rewrite E2. apply B.
Qed.

Lemma CapInv_update o s : CapInv s -> CapInv (update c o s).
Proof.
  intros H p. unfold update.
  assert (E : wpc (update_pert c (time (product_check_state c (check_ready c (check_removing c (o_crank o) (product_check_state c (check_finished c s))))))
                     (product_check_state c (check_ready c (check_removing c (o_crank o) (product_check_state c (check_finished c s))))))
              = wpc (check_removing c (o_crank o) (product_check_state c (check_finished c s)))).
  { rewrite (pi_update_pert c _ wpc) by reflexivity. reflexivity. }
  unfold used. rewrite E. fold (used (check_removing c (o_crank o) (product_check_state c (check_finished c s))) p).
  assert (G : forall l a, (used (fold_left (detach_tree c) l a) p <= used a p)%Q).
  { induction l as [|x l IH]; intros a; cbn [fold_left]; [lra|].
    pose proof (IH (detach_tree c a x)). pose proof (used_detach_list (tree c x) a p). unfold detach_tree in *. lra. }
  unfold check_removing. eapply Qle_lt_trans; [apply G|].
  unfold used. cbn [wpc product_check_state with_cd]. rewrite (pi_check_finished c _ wpc) by reflexivity. apply H.
Qed.

Theorem capacity_all_runs o s : Flat -> (forall p, (0 <= wp_cap c p)%Q) -> o_init_state o = true ->
  Forall (fun ob : obs => CapInv (snd ob)) (snd (simulate c o s)).
Proof.
  intros Hf Hcap Hs. destruct (simulate_trace c o s) as (tr & Htr & Esnd). rewrite Esnd.
  assert (H0 : PInv (initialize c o s) /\ CapInv (initialize c o s)).
  { split; [apply PInv_initialize; exact Hs|]. intros p. unfold used.
    rewrite (proj2 (initialize_unplaced o s Hs) p). cbn. pose proof (Hcap p). unfold tol_space. 
    change (qsum []) with 0%Q. assert (0 < tol_space)%Q by reflexivity. unfold tol_space in *. lra. }
  set (Q := fun x => PInv x /\ CapInv x).
  destruct (trace_invariant c o Q Q Q Q Q
              (fun x Hx => conj (PInv_update o x (proj1 Hx)) (CapInv_update o x (proj2 Hx)))
              (fun x Hx => match P_step_allocate PC PC_frame
                                   (fun s0 m t k p Hok HPC => conj (proj1 (PInv_place c s0 k p HF (proj1 HPC))) (CapInv_place s0 m t k p Hf Hok HPC))
                                   o x Hx with ex_intro _ _ r => r end)
              (fun x Hx => P_step_perform PC PC_frame o x [] Hx)
              (fun x Hx => P_step_record PC PC_frame o x [] Hx)
              (fun x Hx => PC_frame x (with_time x (S (time x))) [] (fun k => eq_refl) eq_refl Hx)
              _ _ _ Htr H0) as [Hall _].
  eapply Forall_impl; [|exact Hall]. intros [[k ph] sn]. cbn. destruct ph; intros [_ h]; exact h.
Qed.

End Run.

(* C13: component placement -- consistency of the two placement records,
   conditions under which a component is placed, removal of finished
   assemblies, at most one move per step. *)
From Coq Require Import List ZArith QArith Bool Arith Lia Lqa Permutation.
From PV Require Import Model.Types Model.Sim Proofs.Base Proofs.Proj Proofs.SortProof Proofs.C11Proof.
Import ListNotations.
Open Scope nat_scope.

Lemma forallb_flat_map {A B} (p : B -> bool) (g : A -> list B) l :
  forallb p (flat_map g l) = forallb (fun x => forallb p (g x)) l.
Proof. induction l as [|x l IH]; cbn; [reflexivity|]. rewrite forallb_app, IH. reflexivity. Qed.

Section C13.
Variable c : cfg.

(* ------------------------------------------------------------------ trees *)
Lemma tree_all_spec fuel p : forall k, tree_all c fuel p k = forallb p (tree_nodes c fuel k).
Proof.
  induction fuel as [|f IH]; intros k; cbn [tree_all tree_nodes forallb]; [rewrite andb_true_r; reflexivity|].
  rewrite forallb_flat_map. f_equal. apply forallb_ext'. exact IH.
Qed.

Lemma tree_nodes_root fuel k : In k (tree_nodes c fuel k).
Proof. destruct fuel; cbn; left; reflexivity. Qed.

(* ------------------------------------------------- the two placement records *)
(* a workplace lists a component exactly when the component reports being
   placed there; no component is listed twice *)
Definition PInv (s : pstate) : Prop :=
  (forall k p, In k (wpc s p) <-> pw (cd s k) = Some p) /\ (forall p, NoDup (wpc s p)).

Lemma PInv_ext s s' : (forall k, pw (cd s' k) = pw (cd s k)) -> wpc s' = wpc s -> PInv s -> PInv s'.
Proof. intros E1 E2 [H1 H2]. split; [intros k p; rewrite E2, E1; apply H1|intros p; rewrite E2; apply H2]. Qed.

Lemma In_remove_first x y l : NoDup l -> (In x (remove_first y l) <-> In x l /\ x <> y).
Proof.
  intros Hnd. rewrite (remove_first_filter y l Hnd). rewrite filter_In. split.
  - intros [H1 H2]. split; [exact H1|]. intros ->. rewrite Nat.eqb_refl in H2. discriminate.
  - intros [H1 H2]. split; [exact H1|]. apply Nat.eqb_neq in H2. rewrite H2. reflexivity.
Qed.
Lemma NoDup_remove_first y l : NoDup l -> NoDup (remove_first y l).
Proof. intros H. rewrite (remove_first_filter y l H). apply NoDup_filter. exact H. Qed.

Lemma PInv_detach_one s k : PInv s -> PInv (detach_one s k) /\ pw (cd (detach_one s k) k) = None
  /\ (forall k', pw (cd s k') = None -> pw (cd (detach_one s k) k') = None)
  /\ (forall k', k' <> k -> pw (cd (detach_one s k) k') = pw (cd s k')).
Proof.
  intros [H1 H2]. unfold detach_one. destruct (pw (cd s k)) as [p|] eqn:Ep.
  - unfold PInv. cbn [cd wpc with_cd with_wpc]. split; [split|].
    + intros k' q. rewrite !upd_eq. destruct (Nat.eqb q p) eqn:Eq; destruct (Nat.eqb k' k) eqn:Ek; cbn [pw].
      * apply Nat.eqb_eq in Eq, Ek. subst. rewrite (In_remove_first _ _ _ (H2 p)). split; [intros [_ F]; congruence|discriminate].
      * apply Nat.eqb_eq in Eq. apply Nat.eqb_neq in Ek. subst. rewrite (In_remove_first _ _ _ (H2 p)). rewrite H1. tauto.
      * apply Nat.eqb_eq in Ek. apply Nat.eqb_neq in Eq. subst. rewrite H1, Ep. split; [intros E; injection E as ->; congruence|discriminate].
      * apply H1.
    + intros q. rewrite upd_eq. destruct (Nat.eqb q p) eqn:Eq; [apply Nat.eqb_eq in Eq; subst; apply NoDup_remove_first|]; apply H2.
    + split; [rewrite upd_same; reflexivity|]. split.
      * intros k' Hk'. rewrite upd_eq. destruct (Nat.eqb k' k); [reflexivity|exact Hk'].
      * intros k' Hne. rewrite upd_other by exact Hne. reflexivity.
  - split; [split; assumption|]. split; [exact Ep|]. split; [intros k' H; exact H|intros; reflexivity].
Qed.

Lemma PInv_detach_list l : forall s, PInv s ->
  let s' := fold_left detach_one l s in
  PInv s' /\ (forall k, In k l -> pw (cd s' k) = None)
  /\ (forall k, pw (cd s k) = None -> pw (cd s' k) = None)
  /\ (forall k, ~ In k l -> pw (cd s' k) = pw (cd s k)).
Proof.
  induction l as [|x l IH]; intros s H; cbv zeta; cbn [fold_left].
  - split; [exact H|]. split; [intros k []|]. split; [intros k E; exact E|intros; reflexivity].
  - destruct (PInv_detach_one s x H) as (A & B & C & D).
    destruct (IH _ A) as (I1 & I2 & I3 & I4). cbv zeta in *.
    split; [exact I1|]. split; [|split].
    + intros k [<-|Hk]; [apply I3; exact B|apply I2; exact Hk].
    + intros k E. apply I3, C, E.
    + intros k Hn. rewrite I4 by (intros F; apply Hn; right; exact F). apply D. intros ->. apply Hn. left. reflexivity.
Qed.

Lemma PInv_detach_tree s k : PInv s ->
  PInv (detach_tree c s k) /\ (forall k', In k' (tree c k) -> pw (cd (detach_tree c s k) k') = None)
  /\ (forall k', pw (cd s k') = None -> pw (cd (detach_tree c s k) k') = None)
  /\ (forall k', ~ In k' (tree c k) -> pw (cd (detach_tree c s k) k') = pw (cd s k')).
Proof. intros H. apply (PInv_detach_list (tree c k) s H). Qed.

(* ----------------------------------------------------------- check_removing *)
Definition removable (s : pstate) (k : nat) : Prop :=
  c_parents c k = [] /\ k < nC c /\ forall k', In k' (tree c k) -> comp_all_fin c s k' = true.

(* (e) after check_removing no component of a finished assembly is placed
   (the visit order [crank] lists every component) *)
Theorem check_removing_spec crank s : PInv s -> (forall k, k < nC c -> In k crank) ->
  let s' := check_removing c crank s in
  PInv s'
  /\ (forall k, removable s k -> forall k', In k' (tree c k) -> pw (cd s' k') = None)
  /\ (forall k', pw (cd s k') = None -> pw (cd s' k') = None).
Proof.
  intros H Hcr. cbv zeta. unfold check_removing.
  set (tops := filter (fun k => match c_parents c k with [] => true | _ => false end) (seq 0 (nC c))).
  set (rs := filter (fun k => tree_all c (nC c) (comp_all_fin c s) k) tops).
  set (order := filter (fun k => mem k rs) crank).
  assert (G : forall l s0, PInv s0 ->
            PInv (fold_left (detach_tree c) l s0)
            /\ (forall k, In k l -> forall k', In k' (tree c k) -> pw (cd (fold_left (detach_tree c) l s0) k') = None)
            /\ (forall k', pw (cd s0 k') = None -> pw (cd (fold_left (detach_tree c) l s0) k') = None)).
  { induction l as [|x l IH]; intros s0 H0; cbn [fold_left].
    - split; [exact H0|]. split; [intros k []|intros k' E; exact E].
    - destruct (PInv_detach_tree s0 x H0) as (A & B & C & _). destruct (IH _ A) as (I1 & I2 & I3).
      split; [exact I1|]. split; [|intros k' E; apply I3, C, E].
      intros k [<-|Hk] k' Hk'; [apply I3, B, Hk'|apply (I2 k Hk k' Hk')]. }
  destruct (G order s H) as (G1 & G2 & G3).
  split; [exact G1|]. split; [|exact G3].
  intros k (Hp & Hk & Hfin) k' Hk'. apply (G2 k); [|exact Hk'].
  unfold order. apply filter_In. split; [apply Hcr; exact Hk|]. apply mem_In. unfold rs. apply filter_In. split.
  - unfold tops. apply filter_In. split; [apply in_seq; lia|rewrite Hp; reflexivity].
  - rewrite tree_all_spec. apply forallb_forall. exact Hfin.
Qed.

(* ------------------------------------------------------------- placement *)
(* what must hold for a component to be put somewhere (block 3-1 of __allocate) *)
Record placed_ok (s : pstate) (moved : list nat) (t k p : nat) : Prop := {
  po_comp : t_comp c t = Some k;
  po_wp : In p (t_wps c t) /\ p < nWP c;
  po_ready : comp_is_ready c s k = true;
  (* (d) no component of the assembly has moved in this step, none has a WORKING task or holds resources *)
  po_idle : forall k', In k' (tree c k) -> ~ In k' moved /\ comp_idle c s k' = true;
  (* (c) conveyor rule: from one of the declared input workplaces, or from nowhere *)
  po_conveyor : forall k', In k' (tree c k) -> wp_inputs c p = [] \/ pw (cd s k') = None
                                              \/ exists q, pw (cd s k') = Some q /\ In q (wp_inputs c p);
  (* (b) it fits into the free space *)
  po_space : (c_size c k - tol_space < avail_space c s p)%Q;
  po_skill : (tol < wp_total_skill c p t)%Q
}.

Lemma try_place_spec s moved t k cands :
  let r := try_place c s moved t k cands in
  (fst r = s /\ snd r = moved)
  \/ exists p, In p cands /\ p < nWP c /\ conveyor_ok c s p k = true /\ can_put c s p k = true
               /\ Qltb tol (wp_total_skill c p t) = true
               /\ fst r = attach_tree c (detach_tree c s k) p k /\ snd r = moved ++ tree c k.
Proof.
  induction cands as [|p r IH]; cbv zeta; cbn [try_place]; [left; split; reflexivity|].
  destruct ((p <? nWP c) && conveyor_ok c s p k && can_put c s p k && Qltb tol (wp_total_skill c p t)) eqn:E.
  - right. exists p. apply andb_true_iff in E. destruct E as [E E4]. apply andb_true_iff in E. destruct E as [E E3].
    apply andb_true_iff in E. destruct E as [E1 E2]. apply Nat.ltb_lt in E1.
    split; [left; reflexivity|]. repeat (split; [assumption|]). split; reflexivity.
  - cbv zeta in IH. destruct IH as [IH|(q & Hq & IH)]; [left; exact IH|right]. exists q. split; [right; exact Hq|exact IH].
Qed.

Theorem place_for_spec s moved t :
  let r := place_for c s moved t in
  (fst r = s /\ snd r = moved)
  \/ exists k p, placed_ok s moved t k p /\ fst r = attach_tree c (detach_tree c s k) p k /\ snd r = moved ++ tree c k.
Proof.
  cbv zeta. unfold place_for. destruct (t_comp c t) as [k|] eqn:Ec; [|left; split; reflexivity].
  destruct (comp_is_ready c s k && can_move c s moved k) eqn:E; [|left; split; reflexivity].
  apply andb_true_iff in E. destruct E as [Er Em].
  destruct (try_place_spec s moved t k (sort_wps c (t_prule c t) s t (t_wps c t))) as [H|(p & Hp & Hlt & Hcv & Hput & Hsk & H1 & H2)];
    [left; exact H|right].
  exists k, p. split; [|split; assumption].
  constructor.
  - exact Ec.
  - split; [|exact Hlt]. apply (Permutation_in p (proj1 (sort_wps_spec c (t_prule c t) s t (t_wps c t)))). exact Hp.
  - exact Er.
  - intros k' Hk'. unfold can_move in Em. rewrite tree_all_spec in Em. rewrite forallb_forall in Em.
    specialize (Em k' Hk'). apply andb_true_iff in Em. destruct Em as [A B]. split; [|exact B].
    intros F. apply mem_In in F. rewrite F in A. discriminate.
  - intros k' Hk'. unfold conveyor_ok in Hcv. rewrite tree_all_spec in Hcv. rewrite forallb_forall in Hcv.
    specialize (Hcv k' Hk'). destruct (wp_inputs c p) as [|i0 ins]; [left; reflexivity|right].
    destruct (pw (cd s k')) as [q|]; [right; exists q; split; [reflexivity|apply mem_In; exact Hcv]|left; reflexivity].
  - unfold can_put in Hput. apply Qltb_true in Hput. exact Hput.
  - apply Qltb_true in Hsk. exact Hsk.
Qed.


(* ------------------------------------------------------------ attach_tree *)
Lemma NoDup_app_disj {A} (a b : list A) : NoDup (a ++ b) -> NoDup a /\ NoDup b /\ (forall x, In x a -> ~ In x b).
Proof.
  induction a as [|y a IH]; cbn; intros H; [split; [constructor|split; [exact H|intros x []]]|].
  inversion H as [|z l Hy Hn]; subst. destruct (IH Hn) as (A1 & A2 & A3).
  split; [constructor; [intros F; apply Hy; apply in_or_app; left; exact F|exact A1]|]. split; [exact A2|].
  intros x [<-|Hx]; [intros F; apply Hy; apply in_or_app; right; exact F|apply A3; exact Hx].
Qed.

Lemma spc_spec p : forall fuel l k, NoDup l -> NoDup (tree_nodes c fuel k) ->
  (forall x, In x (tree_nodes c fuel k) -> ~ In x l) ->
  NoDup (set_placed_comp c fuel p l k)
  /\ forall x, In x (set_placed_comp c fuel p l k) <-> In x l \/ In x (tree_nodes c fuel k).
Proof.
  induction fuel as [|f IH]; intros l k Hl Ht Hd; cbn [set_placed_comp tree_nodes] in *.
  - destruct (mem k l) eqn:Em; [apply mem_In in Em; exfalso; apply (Hd k); [left; reflexivity|exact Em]|].
    split; [apply NoDup_app_snoc; [exact Hl|apply Hd; left; reflexivity]|].
    intros x. rewrite in_app_iff. reflexivity.
  - destruct (mem k l) eqn:Em; [apply mem_In in Em; exfalso; apply (Hd k); [left; reflexivity|exact Em]|].
    inversion Ht as [|y t' Hk Hcs]; subst.
    assert (G : forall cs acc, NoDup acc -> NoDup (flat_map (tree_nodes c f) cs) ->
              (forall x, In x (flat_map (tree_nodes c f) cs) -> ~ In x acc) ->
              NoDup (fold_left (set_placed_comp c f p) cs acc)
              /\ forall x, In x (fold_left (set_placed_comp c f p) cs acc) <-> In x acc \/ In x (flat_map (tree_nodes c f) cs)).
    { induction cs as [|ch cs IHc]; intros acc Ha Hn Hdis; cbn [fold_left flat_map] in *.
      - split; [exact Ha|intros x; cbn [In]; tauto].
      - destruct (NoDup_app_disj _ _ Hn) as (N1 & N2 & N3).
        destruct (IH acc ch Ha N1) as [R1 R2]; [intros x Hx; apply Hdis; apply in_or_app; left; exact Hx|].
        destruct (IHc (set_placed_comp c f p acc ch) R1 N2) as [S1 S2].
        + intros x Hx F. apply R2 in F. destruct F as [F|F]; [apply (Hdis x); [apply in_or_app; right; exact Hx|exact F]|apply (N3 x F Hx)].
        + split; [exact S1|]. intros x. rewrite S2, R2, in_app_iff. tauto. }
    destruct (G (c_children c k) (l ++ [k])) as [G1 G2].
    + apply NoDup_app_snoc; [exact Hl|apply Hd; left; reflexivity].
    + exact Hcs.
    + intros x Hx F. apply in_app_iff in F. destruct F as [F|[<-|[]]]; [apply (Hd x); [right; exact Hx|exact F]|contradiction].
    + split; [exact G1|]. intros x. rewrite G2, in_app_iff. cbn. tauto.
Qed.

(* a proper forest: no component is reached twice from a root (in particular
   no cycle and no shared sub-assembly) *)
Definition Forest : Prop := forall k, NoDup (tree c k).

Lemma pw_fold_attach p l : forall d k, 
  pw (fold_left (fun d k' => upd d k' (mkCL (cst (d k')) (Some p))) l d k) = if mem k l then Some p else pw (d k).
Proof.
  induction l as [|x l IH]; intros d k; cbn [fold_left]; [reflexivity|].
  rewrite IH. unfold mem at 2. cbn [existsb]. fold (mem k l). rewrite upd_eq.
  destruct (mem k l); [rewrite orb_true_r; reflexivity|]. rewrite orb_false_r. destruct (Nat.eqb k x); reflexivity.
Qed.

Theorem PInv_place s k p : Forest -> PInv s ->
  let s' := attach_tree c (detach_tree c s k) p k in
  PInv s'
  /\ (forall k', In k' (tree c k) -> pw (cd s' k') = Some p)
  /\ (forall k', ~ In k' (tree c k) -> pw (cd s' k') = pw (cd s k'))
  /\ (forall q, q <> p -> forall x, In x (wpc s' q) <-> In x (wpc s q) /\ ~ In x (tree c k))
  /\ (forall x, In x (wpc s' p) <-> (In x (wpc s p) /\ ~ In x (tree c k)) \/ In x (tree c k)).
Proof.
  intros HF H. cbv zeta.
  destruct (PInv_detach_tree s k H) as ([D1 D2] & D3 & D4 & D5).
  set (s1 := detach_tree c s k) in *.
  assert (Hout : forall x q, In x (tree c k) -> ~ In x (wpc s1 q)).
  { intros x q Hx F. apply D1 in F. rewrite (D3 x Hx) in F. discriminate. }
  destruct (spc_spec p (nC c) (wpc s1 p) k (D2 p) (HF k) (fun x Hx => Hout x p Hx)) as [S1 S2].
  assert (Ewpc : forall q x, In x (wpc s1 q) <-> In x (wpc s q) /\ ~ In x (tree c k)).
  { intros q x. rewrite D1. destruct H as [H1 _]. rewrite H1. split.
    - intros E. destruct (in_dec Nat.eq_dec x (tree c k)) as [Hi|Hn]; [rewrite (D3 x Hi) in E; discriminate|].
      rewrite (D5 x Hn) in E. split; assumption.
    - intros [E Hn]. rewrite (D5 x Hn). exact E. }
  unfold attach_tree. cbn [cd wpc with_cd with_wpc].
  assert (Epw : forall k', pw (fold_left (fun d k' => upd d k' (mkCL (cst (d k')) (Some p))) (tree c k) (cd s1) k')
                          = if mem k' (tree c k) then Some p else pw (cd s1 k')) by (intros k'; apply pw_fold_attach).
  split; [split|].
  - intros x q. cbn [cd wpc with_cd with_wpc]. rewrite Epw, upd_eq.
    destruct (mem x (tree c k)) eqn:Em.
    + apply mem_In in Em. destruct (Nat.eqb q p) eqn:Eq.
      * apply Nat.eqb_eq in Eq. subst q. split; [reflexivity|]. intros _. apply S2. right. exact Em.
      * apply Nat.eqb_neq in Eq. split; [intros F; exfalso; apply (Hout x q Em F)|intros E; injection E as E; congruence].
    + assert (Hn : ~ In x (tree c k)) by (intros F; apply mem_In in F; congruence).
      destruct (Nat.eqb q p) eqn:Eq.
      * apply Nat.eqb_eq in Eq. subst q. rewrite S2, D1. tauto.
      * apply D1.
  - intros q. cbn [wpc with_wpc with_cd]. rewrite upd_eq. destruct (Nat.eqb q p); [exact S1|apply D2].
  - split; [intros k' Hk'; rewrite Epw; apply mem_In in Hk'; rewrite Hk'; reflexivity|]. split.
    + intros k' Hn. rewrite Epw. destruct (mem k' (tree c k)) eqn:Em; [apply mem_In in Em; contradiction|apply D5; exact Hn].
    + split.
      * intros q Hq x. rewrite upd_other by exact Hq. apply Ewpc.
      * intros x. rewrite upd_same, S2, Ewpc. tauto.
Qed.

End C13.

(* The allocation structure invariant: two-way consistency, exclusivity, only
   READY/WORKING tasks hold resources.  Core of C03 (also used by C02, C04,
   C06, C11). *)
From Coq Require Import List ZArith QArith Bool Arith Lia Permutation.
From PV Require Import Model.Types Model.Sim Proofs.Base Proofs.Frames Proofs.Proj Proofs.SortProof
  Proofs.RunLemmas Proofs.C01Proof.
Import ListNotations.
Open Scope nat_scope.

Section AllocInv.
Variable c : cfg.

(* well-formedness of the configuration (what the builders of the object graph
   guarantee): every worker belongs to exactly one team list position, ids are
   in range *)
Hypothesis Hw_range : forall w, In w (all_workers c) -> w < nW c.
Hypothesis Hw_nodup : NoDup (all_workers c).
Hypothesis Hf_range : forall p f, In f (wp_facs c p) -> f < nF c.
Hypothesis Hf_nodup : forall p, NoDup (wp_facs c p).

Definition holder_ok (x : tstate) : bool := negb (is_none x || is_fin x).

Record AInv (s : pstate) : Prop := mkAInv {
  a_w1 : forall t w, t < nT c -> In w (aw (td s t)) -> w < nW c /\ In t (asg (wd s w));
  a_w2 : forall w t, w < nW c -> In t (asg (wd s w)) -> t < nT c /\ In w (aw (td s t));
  a_f1 : forall t f, t < nT c -> In f (af (td s t)) -> f < nF c /\ In t (asg (fd s f));
  a_f2 : forall f t, f < nF c -> In t (asg (fd s f)) -> t < nT c /\ In f (af (td s t));
  a_wx : forall w, w < nW c -> length (asg (wd s w)) <= 1;
  a_fx : forall f, f < nF c -> length (asg (fd s f)) <= 1;
  a_nd : forall t, t < nT c -> NoDup (aw (td s t)) /\ NoDup (af (td s t));
  a_hold : forall t, t < nT c -> (aw (td s t) <> [] \/ af (td s t) <> []) -> holder_ok (st (td s t)) = true;
  a_nofac : forall t, t < nT c -> t_needfac c t = false -> af (td s t) = []
}.

(* a state change that keeps all allocation lists and does not take a holder
   out of READY/WORKING *)
Lemma AInv_ext s s' :
  (forall t, aw (td s' t) = aw (td s t) /\ af (td s' t) = af (td s t)) ->
  (forall t, holder_ok (st (td s t)) = true -> holder_ok (st (td s' t)) = true) ->
  (forall w, asg (wd s' w) = asg (wd s w)) -> (forall f, asg (fd s' f) = asg (fd s f)) ->
  AInv s -> AInv s'.
Proof.
  intros Et Eh Ew Ef [H1 H2 H3 H4 H5 H6 H7 H8 H9].
  constructor.
  - intros t w Ht Hin. destruct (Et t) as [E _]. rewrite E in Hin. rewrite Ew. apply H1; assumption.
  - intros w t Hw Hin. rewrite Ew in Hin. destruct (Et t) as [E _]. rewrite E. apply H2; assumption.
  - intros t f Ht Hin. destruct (Et t) as [_ E]. rewrite E in Hin. rewrite Ef. apply H3; assumption.
  - intros f t Hf Hin. rewrite Ef in Hin. destruct (Et t) as [_ E]. rewrite E. apply H4; assumption.
  - intros w Hw. rewrite Ew. apply H5; exact Hw.
  - intros f Hf. rewrite Ef. apply H6; exact Hf.
  - intros t Ht. destruct (Et t) as [E1 E2]. rewrite E1, E2. apply H7; exact Ht.
  - intros t Ht Hne. destruct (Et t) as [E1 E2]. rewrite E1, E2 in Hne. apply Eh. apply H8; assumption.
  - intros t Ht Hn. destruct (Et t) as [_ E2]. rewrite E2. apply H9; assumption.
Qed.

Lemma holder_ok_adv a b : adv a b -> b <> TFinished -> holder_ok a = true -> holder_ok b = true.
Proof. destruct a, b; cbn; intros H Hn E; try reflexivity; try contradiction; try discriminate; congruence. Qed.

(* ------------------------------------------------------------ allocation *)
Lemma length_le1_nil_or_single (l : list nat) : length l <= 1 -> l = [] \/ exists x, l = [x].
Proof. destruct l as [|x [|y l]]; cbn; intros H; [left; reflexivity|right; exists x; reflexivity|lia]. Qed.

Lemma AInv_do_alloc_w s t w :
  AInv s -> t < nT c -> w < nW c -> asg (wd s w) = [] -> holder_ok (st (td s t)) = true ->
  AInv (do_alloc_w s t w).
Proof.
  intros [H1 H2 H3 H4 H5 H6 H7 H8 H9] Ht Hw Hfree Hok.
  assert (Hnotin : ~ In w (aw (td s t))).
  { intros Hin. destruct (H1 t w Ht Hin) as [_ Hin']. rewrite Hfree in Hin'. exact Hin'. }
  unfold do_alloc_w. constructor; cbn [td wd fd with_td with_wd].
  - intros t' w' Ht' Hin. rewrite upd_eq in Hin. rewrite upd_eq.
    destruct (Nat.eqb t' t) eqn:Et.
    + apply Nat.eqb_eq in Et. subst t'. cbn [aw set_aw] in Hin. apply in_app_or in Hin.
      destruct Hin as [Hin|[<-|[]]].
      * destruct (H1 t w' Ht Hin) as [Hr Hin']. split; [exact Hr|].
        destruct (Nat.eqb w' w) eqn:Ew; [apply Nat.eqb_eq in Ew; subst; contradiction|exact Hin'].
      * split; [exact Hw|]. rewrite Nat.eqb_refl. cbn [asg]. apply in_or_app. right. left. reflexivity.
    + destruct (H1 t' w' Ht' Hin) as [Hr Hin']. split; [exact Hr|].
      destruct (Nat.eqb w' w) eqn:Ew; [|exact Hin'].
      apply Nat.eqb_eq in Ew. subst w'. rewrite Hfree in Hin'. contradiction.
  - intros w' t' Hw' Hin. rewrite upd_eq in Hin. rewrite upd_eq.
    destruct (Nat.eqb w' w) eqn:Ew.
    + apply Nat.eqb_eq in Ew. subst w'. cbn [asg] in Hin. rewrite Hfree in Hin. cbn in Hin.
      destruct Hin as [<-|[]]. split; [exact Ht|]. rewrite Nat.eqb_refl. cbn [aw set_aw].
      apply in_or_app. right. left. reflexivity.
    + destruct (H2 w' t' Hw' Hin) as [Hr Hin']. split; [exact Hr|].
      destruct (Nat.eqb t' t) eqn:Et; [|exact Hin'].
      apply Nat.eqb_eq in Et. subst t'. cbn [aw set_aw]. apply in_or_app. left. exact Hin'.
  - intros t' f Ht' Hin. rewrite upd_eq in Hin.
    destruct (Nat.eqb t' t) eqn:Et; [apply Nat.eqb_eq in Et; subst t'; cbn [af set_aw] in Hin|]; apply H3; assumption.
  - intros f t' Hf Hin. destruct (H4 f t' Hf Hin) as [Hr Hin']. split; [exact Hr|]. rewrite upd_eq.
    destruct (Nat.eqb t' t) eqn:Et; [apply Nat.eqb_eq in Et; subst t'; cbn [af set_aw]|]; exact Hin'.
  - intros w' Hw'. rewrite upd_eq. destruct (Nat.eqb w' w) eqn:Ew; [|apply H5; exact Hw'].
    cbn [asg]. apply Nat.eqb_eq in Ew. subst w'. rewrite Hfree. cbn. lia.
  - exact H6.
  - intros t' Ht'. rewrite upd_eq. destruct (Nat.eqb t' t) eqn:Et; [|apply H7; exact Ht'].
    apply Nat.eqb_eq in Et. subst t'. cbn [aw af set_aw]. destruct (H7 t Ht) as [N1 N2]. split; [|exact N2].
    apply NoDup_app_snoc; assumption.
  - intros t' Ht' Hne. rewrite upd_eq in *. destruct (Nat.eqb t' t) eqn:Et; [|apply H8; assumption].
    apply Nat.eqb_eq in Et. subst t'. cbn [st set_aw]. exact Hok.
  - intros t' Ht' Hn. rewrite upd_eq. destruct (Nat.eqb t' t) eqn:Et; [|apply H9; assumption].
    apply Nat.eqb_eq in Et. subst t'. cbn [af set_aw]. apply H9; assumption.
Qed.

Lemma AInv_do_alloc_f s t f :
  AInv s -> t < nT c -> f < nF c -> asg (fd s f) = [] -> holder_ok (st (td s t)) = true ->
  t_needfac c t = true ->
  AInv (do_alloc_f s t f).
Proof.
  intros [H1 H2 H3 H4 H5 H6 H7 H8 H9] Ht Hf Hfree Hok Hnf.
  assert (Hnotin : ~ In f (af (td s t))).
  { intros Hin. destruct (H3 t f Ht Hin) as [_ Hin']. rewrite Hfree in Hin'. exact Hin'. }
  unfold do_alloc_f. constructor; cbn [td wd fd with_td with_fd].
  - intros t' w Ht' Hin. rewrite upd_eq in Hin.
    destruct (Nat.eqb t' t) eqn:Et; [apply Nat.eqb_eq in Et; subst t'; cbn [aw set_af] in Hin|]; apply H1; assumption.
  - intros w t' Hw Hin. destruct (H2 w t' Hw Hin) as [Hr Hin']. split; [exact Hr|]. rewrite upd_eq.
    destruct (Nat.eqb t' t) eqn:Et; [apply Nat.eqb_eq in Et; subst t'; cbn [aw set_af]|]; exact Hin'.
  - intros t' f' Ht' Hin. rewrite upd_eq in Hin. rewrite upd_eq.
    destruct (Nat.eqb t' t) eqn:Et.
    + apply Nat.eqb_eq in Et. subst t'. cbn [af set_af] in Hin. apply in_app_or in Hin.
      destruct Hin as [Hin|[<-|[]]].
      * destruct (H3 t f' Ht Hin) as [Hr Hin']. split; [exact Hr|].
        destruct (Nat.eqb f' f) eqn:Ew; [apply Nat.eqb_eq in Ew; subst; contradiction|exact Hin'].
      * split; [exact Hf|]. rewrite Nat.eqb_refl. cbn [asg]. apply in_or_app. right. left. reflexivity.
    + destruct (H3 t' f' Ht' Hin) as [Hr Hin']. split; [exact Hr|].
      destruct (Nat.eqb f' f) eqn:Ew; [|exact Hin'].
      apply Nat.eqb_eq in Ew. subst f'. rewrite Hfree in Hin'. contradiction.
  - intros f' t' Hf' Hin. rewrite upd_eq in Hin. rewrite upd_eq.
    destruct (Nat.eqb f' f) eqn:Ew.
    + apply Nat.eqb_eq in Ew. subst f'. cbn [asg] in Hin. rewrite Hfree in Hin. cbn in Hin.
      destruct Hin as [<-|[]]. split; [exact Ht|]. rewrite Nat.eqb_refl. cbn [af set_af].
      apply in_or_app. right. left. reflexivity.
    + destruct (H4 f' t' Hf' Hin) as [Hr Hin']. split; [exact Hr|].
      destruct (Nat.eqb t' t) eqn:Et; [|exact Hin'].
      apply Nat.eqb_eq in Et. subst t'. cbn [af set_af]. apply in_or_app. left. exact Hin'.
  - exact H5.
  - intros f' Hf'. rewrite upd_eq. destruct (Nat.eqb f' f) eqn:Ew; [|apply H6; exact Hf'].
    cbn [asg]. apply Nat.eqb_eq in Ew. subst f'. rewrite Hfree. cbn. lia.
  - intros t' Ht'. rewrite upd_eq. destruct (Nat.eqb t' t) eqn:Et; [|apply H7; exact Ht'].
    apply Nat.eqb_eq in Et. subst t'. cbn [aw af set_af]. destruct (H7 t Ht) as [N1 N2]. split; [exact N1|].
    apply NoDup_app_snoc; assumption.
  - intros t' Ht' Hne. rewrite upd_eq in *. destruct (Nat.eqb t' t) eqn:Et; [|apply H8; assumption].
    apply Nat.eqb_eq in Et. subst t'. cbn [st set_af]. exact Hok.
  - intros t' Ht' Hn. rewrite upd_eq. destruct (Nat.eqb t' t) eqn:Et; [|apply H9; assumption].
    apply Nat.eqb_eq in Et. subst t'. congruence.
Qed.

(* ------------------------------------------------------------ finishing *)
(* releasing the workers of a finished task: each of them holds exactly that task *)
Lemma release_fold s1 t l : forall (d : nat -> rlive),
  stof s1 t = TFinished -> NoDup l ->
  (forall r, In r l -> asg (d r) = [t]) ->
  forall r, fold_left (release_one s1 t) l d r = if mem r l then mkRL RFree [] else d r.
Proof.
  induction l as [|x l IH]; intros d Hfin Hnd Hd r; cbn [fold_left]; [reflexivity|].
  assert (Ex : release_one s1 t d x = upd d x (mkRL RFree [])).
  { unfold release_one. rewrite (Hd x (or_introl eq_refl)). cbn [negb andb forallb].
    fold (stof s1 t). rewrite Hfin. cbn. rewrite Nat.eqb_refl. reflexivity. }
  rewrite Ex. inversion Hnd as [|y l' Hx Hnd']; subst.
  rewrite IH; [|exact Hfin|exact Hnd'|].
  - unfold mem. cbn [existsb]. fold (mem r l).
    destruct (Nat.eqb r x) eqn:Erx.
    + apply Nat.eqb_eq in Erx. subst r. cbn [orb].
      destruct (mem x l) eqn:Em; [reflexivity|]. rewrite upd_same. reflexivity.
    + cbn [orb]. destruct (mem r l); [reflexivity|]. rewrite upd_eq, Erx. reflexivity.
  - intros r' Hr'. rewrite upd_eq. destruct (Nat.eqb r' x) eqn:E.
    + apply Nat.eqb_eq in E. subst r'. contradiction.
    + apply Hd. right. exact Hr'.
Qed.

(* single-holder facts *)
Lemma single_holder_w s t w : AInv s -> t < nT c -> In w (aw (td s t)) -> asg (wd s w) = [t].
Proof.
  intros H Ht Hin. destruct (a_w1 s H t w Ht Hin) as [Hw Hin'].
  destruct (length_le1_nil_or_single _ (a_wx s H w Hw)) as [E|[x E]]; rewrite E in Hin'; [contradiction|].
  destruct Hin' as [->|[]]. exact E.
Qed.
Lemma single_holder_f s t f : AInv s -> t < nT c -> In f (af (td s t)) -> asg (fd s f) = [t].
Proof.
  intros H Ht Hin. destruct (a_f1 s H t f Ht Hin) as [Hf Hin'].
  destruct (length_le1_nil_or_single _ (a_fx s H f Hf)) as [E|[x E]]; rewrite E in Hin'; [contradiction|].
  destruct Hin' as [->|[]]. exact E.
Qed.

(* the state after finish_task, field by field *)
Lemma finish_task_fields s t : AInv s -> t < nT c ->
  let s' := finish_task c s t in
  (forall t', aw (td s' t') = if Nat.eqb t' t then [] else aw (td s t'))
  /\ (forall t', af (td s' t') = if Nat.eqb t' t then [] else af (td s t'))
  /\ (forall w, wd s' w = if mem w (aw (td s t)) then mkRL RFree [] else wd s w)
  /\ (forall f, fd s' f = if mem f (af (td s t)) then mkRL RFree [] else fd s f).
Proof.
  intros H Ht. cbv zeta. unfold finish_task.
  set (x := td s t).
  set (s1 := with_td s (upd (td s) t (set_rem (set_st x TFinished) 0%Q))).
  assert (Hfin : stof s1 t = TFinished) by (unfold stof, s1; cbn [td with_td]; rewrite upd_same; reflexivity).
  assert (Hw : forall r, fold_left (release_one s1 t) (aw x) (wd s1) r = if mem r (aw x) then mkRL RFree [] else wd s r).
  { intros r. rewrite (release_fold s1 t (aw x) (wd s1) Hfin).
    - reflexivity.
    - apply (a_nd s H t Ht).
    - intros r' Hr'. apply (single_holder_w s t r' H Ht Hr'). }
  destruct (t_needfac c t) eqn:Enf.
  - set (s2 := with_wd s1 (fold_left (release_one s1 t) (aw x) (wd s1))).
    set (s3 := with_td s2 (upd (td s2) t (set_aw (td s2 t) []))).
    assert (Hfin3 : stof s3 t = TFinished).
    { unfold stof, s3, s2, s1. cbn [td with_td with_wd]. rewrite !upd_same. reflexivity. }
    assert (Hf : forall r, fold_left (release_one s3 t) (af x) (fd s3) r = if mem r (af x) then mkRL RFree [] else fd s r).
    { intros r. rewrite (release_fold s3 t (af x) (fd s3) Hfin3).
      - reflexivity.
      - apply (a_nd s H t Ht).
      - intros r' Hr'. apply (single_holder_f s t r' H Ht Hr'). }
    cbn [td wd fd with_td with_wd with_fd]. repeat split.
    + intros t'. rewrite !upd_eq. destruct (Nat.eqb t' t) eqn:E.
      * unfold s3, s2, s1. cbn [td with_td with_wd with_fd aw set_af]. rewrite upd_same. reflexivity.
      * unfold s3, s2, s1. cbn [td with_td with_wd with_fd]. rewrite !upd_eq, E. reflexivity.
    + intros t'. rewrite !upd_eq. destruct (Nat.eqb t' t) eqn:E; [reflexivity|].
      unfold s3, s2, s1. cbn [td with_td with_wd with_fd]. rewrite !upd_eq, E. reflexivity.
    + intros w. unfold s3, s2. cbn [wd with_td with_wd with_fd]. apply Hw.
    + intros f. apply Hf.
  - cbn [td wd fd with_td with_wd with_fd]. repeat split.
    + intros t'. rewrite !upd_eq. destruct (Nat.eqb t' t) eqn:E; [reflexivity|].
      unfold s1. cbn [td with_td with_wd]. rewrite !upd_eq, E. reflexivity.
    + intros t'. rewrite !upd_eq. destruct (Nat.eqb t' t) eqn:E.
      * apply Nat.eqb_eq in E. subst t'. unfold s1. cbn [td with_td with_wd af set_aw]. rewrite upd_same.
        cbn [af set_rem set_st]. apply (a_nofac s H t Ht Enf).
      * unfold s1. cbn [td with_td with_wd]. rewrite !upd_eq, E. reflexivity.
    + intros w. apply Hw.
    + intros f. unfold s1, x. cbn [fd with_td]. rewrite (a_nofac s H t Ht Enf). reflexivity.
Qed.

Lemma mem_false_not_in x l : mem x l = false -> ~ In x l.
Proof. intros H Hin. apply mem_In in Hin. congruence. Qed.

Lemma AInv_finish_task s t : AInv s -> t < nT c -> AInv (finish_task c s t).
Proof.
  intros H Ht. destruct (finish_task_fields s t H Ht) as (Eaw & Eaf & Ewd & Efd).
  constructor.
  - intros t' w Ht' Hin. rewrite Eaw in Hin. destruct (Nat.eqb t' t) eqn:E; [contradiction|].
    destruct (a_w1 s H t' w Ht' Hin) as [Hw Hin']. split; [exact Hw|]. rewrite Ewd.
    destruct (mem w (aw (td s t))) eqn:Em; [|exact Hin'].
    apply mem_In in Em. rewrite (single_holder_w s t w H Ht Em) in Hin'. destruct Hin' as [->|[]].
    rewrite Nat.eqb_refl in E. discriminate.
  - intros w t' Hw Hin. rewrite Ewd in Hin. destruct (mem w (aw (td s t))) eqn:Em; [contradiction|].
    destruct (a_w2 s H w t' Hw Hin) as [Ht' Hin']. split; [exact Ht'|]. rewrite Eaw.
    destruct (Nat.eqb t' t) eqn:E; [|exact Hin'].
    apply Nat.eqb_eq in E. subst t'. apply mem_false_not_in in Em. contradiction.
  - intros t' f Ht' Hin. rewrite Eaf in Hin. destruct (Nat.eqb t' t) eqn:E; [contradiction|].
    destruct (a_f1 s H t' f Ht' Hin) as [Hf Hin']. split; [exact Hf|]. rewrite Efd.
    destruct (mem f (af (td s t))) eqn:Em; [|exact Hin'].
    apply mem_In in Em. rewrite (single_holder_f s t f H Ht Em) in Hin'. destruct Hin' as [->|[]].
    rewrite Nat.eqb_refl in E. discriminate.
  - intros f t' Hf Hin. rewrite Efd in Hin. destruct (mem f (af (td s t))) eqn:Em; [contradiction|].
    destruct (a_f2 s H f t' Hf Hin) as [Ht' Hin']. split; [exact Ht'|]. rewrite Eaf.
    destruct (Nat.eqb t' t) eqn:E; [|exact Hin'].
    apply Nat.eqb_eq in E. subst t'. apply mem_false_not_in in Em. contradiction.
  - intros w Hw. rewrite Ewd. destruct (mem w (aw (td s t))); [cbn; lia|apply (a_wx s H w Hw)].
  - intros f Hf. rewrite Efd. destruct (mem f (af (td s t))); [cbn; lia|apply (a_fx s H f Hf)].
  - intros t' Ht'. rewrite Eaw, Eaf. destruct (Nat.eqb t' t); [split; constructor|apply (a_nd s H t' Ht')].
  - intros t' Ht' Hne. rewrite Eaw, Eaf in Hne. fold (stof (finish_task c s t) t'). rewrite stof_finish_task.
    destruct (Nat.eqb t' t); [destruct Hne as [Hne|Hne]; contradiction|apply (a_hold s H t' Ht' Hne)].
  - intros t' Ht' Hn. rewrite Eaf. destruct (Nat.eqb t' t); [reflexivity|apply (a_nofac s H t' Ht' Hn)].
Qed.

Lemma AInv_check_finished s : AInv s -> AInv (check_finished c s).
Proof.
  assert (P : forall x, AInv x -> AInv (fst (finish_pass c x))).
  { intros x Hx. unfold finish_pass.
    assert (G : forall l (acc : pstate * bool), (forall t, In t l -> t < nT c) -> AInv (fst acc) ->
               AInv (fst (fold_left (fun (acc : pstate * bool) t =>
                        let (s', ch) := acc in
                        if finish_gate c s' t then (finish_task c s' t, true) else (s', ch)) l acc))).
    { induction l as [|t l IH]; intros acc Hl Ha; cbn [fold_left]; [exact Ha|].
      apply IH; [intros y Hy; apply Hl; right; exact Hy|].
      destruct acc as [s' ch]. cbn [fst] in *. destruct (finish_gate c s' t); cbn [fst]; [|exact Ha].
      apply AInv_finish_task; [exact Ha|apply Hl; left; reflexivity]. }
    apply G; [|exact Hx]. intros t Hin. apply filter_In in Hin. destruct Hin as [Hin _].
    apply in_seq in Hin. lia. }
  unfold check_finished. generalize (S (nT c)) as fuel. intros fuel. revert s.
  induction fuel as [|f IH]; intros s Hs; cbn [finish_loop]; [exact Hs|].
  destruct (finish_pass c s) as [s' ch] eqn:E.
  assert (H' : AInv s') by (change s' with (fst (s', ch)); rewrite <- E; apply P; exact Hs).
  destruct ch; [apply IH; exact H'|exact H'].
Qed.


(* ---------------------------------------------------------------- allocate *)
Definition FreeOK (s : pstate) (free : list nat) : Prop :=
  NoDup free /\ forall w, In w free -> w < nW c /\ asg (wd s w) = [].

Lemma sort_workers_perm rule t tgt l : Permutation (sort_workers c rule t tgt l) l.
Proof.
  unfold sort_workers, sort_by3.
  destruct rule as [|p|p]; try reflexivity; try apply stable_sort_perm.
  - destruct p as [p|p|]; try reflexivity; try apply stable_sort_perm.
    destruct p; try reflexivity; apply stable_sort_perm.
  - destruct p; try reflexivity; apply stable_sort_perm.
Qed.

Lemma FreeOK_perm s l l' : Permutation l' l -> FreeOK s l -> FreeOK s l'.
Proof.
  intros P [Hn Hf]. split; [eapply Permutation_NoDup; [symmetry; exact P|exact Hn]|].
  intros w Hw. apply Hf. eapply Permutation_in; [exact P|exact Hw].
Qed.

Lemma can_add_holder s t w fo : can_add c s t w fo = true -> holder_ok (st (td s t)) = true.
Proof.
  unfold can_add, holder_ok. destruct (is_none (st (td s t)) || is_fin (st (td s t))); [discriminate|reflexivity].
Qed.

Lemma can_add_fac_free s t w f : can_add c s t w (Some f) = true -> asg (fd s f) = [].
Proof.
  unfold can_add.
  destruct (is_none (st (td s t)) || is_fin (st (td s t))); [discriminate|].
  destruct (existsb (w_solo c) (aw (td s t)) || existsb (f_solo c) (af (td s t))); [discriminate|].
  destruct (w_solo c w && negb match aw (td s t) with [] => true | _ :: _ => false end); [discriminate|].
  destruct (f_solo c f && negb match af (td s t) with [] => true | _ :: _ => false end); [discriminate|].
  destruct (match t_fixw c t with Some l => negb (mem w l) | None => false end); [discriminate|].
  destruct (match t_fixf c t with Some l => negb (mem f l) | None => false end); [discriminate|].
  destruct (asg (fd s f)); [reflexivity|discriminate].
Qed.

Lemma filter_neq_in w w' l : In w' l -> w' <> w -> In w' (filter (fun x => negb (Nat.eqb x w)) l).
Proof. intros Hin Hne. apply filter_In. split; [exact Hin|]. apply Nat.eqb_neq in Hne. rewrite Hne. reflexivity. Qed.

Lemma FreeOK_after_alloc s t w fr :
  FreeOK s fr -> FreeOK (do_alloc_w s t w) (filter (fun x => negb (Nat.eqb x w)) fr).
Proof.
  intros [Hn Hf]. split; [apply NoDup_filter; exact Hn|].
  intros w' Hin. apply filter_In in Hin. destruct Hin as [Hin Hne].
  destruct (Hf w' Hin) as [Hr He]. split; [exact Hr|].
  unfold do_alloc_w. cbn [wd with_wd with_td]. rewrite upd_eq.
  destruct (Nat.eqb w' w); [discriminate|exact He].
Qed.

Lemma alloc_workers_inv s free t : AInv s -> FreeOK s free -> t < nT c ->
  AInv (fst (alloc_workers c s free t)) /\ FreeOK (fst (alloc_workers c s free t)) (snd (alloc_workers c s free t)).
Proof.
  intros Ha Hfree Ht. unfold alloc_workers.
  set (free1 := sort_workers c (t_wrule c t) t None free).
  assert (Hf1 : FreeOK s free1) by (eapply FreeOK_perm; [apply sort_workers_perm|exact Hfree]).
  set (cands := filter (fun w => has_wskill c w t && w_targets c w t) free1).
  assert (G : forall l (acc : pstate * list nat), NoDup l -> (forall w, In w l -> In w (snd acc)) ->
            AInv (fst acc) -> FreeOK (fst acc) (snd acc) ->
            let r := fold_left (fun (acc : pstate * list nat) w =>
                       let (s', fr) := acc in
                       if can_add c s' t w None
                       then (do_alloc_w s' t w, filter (fun w' => negb (Nat.eqb w' w)) fr) else acc) l acc in
            AInv (fst r) /\ FreeOK (fst r) (snd r)).
  { induction l as [|w l IH]; intros [s' fr] Hnd Hin Hai Hfo; cbn [fold_left]; [split; assumption|].
    inversion Hnd as [|x l' Hx Hnd']; subst. cbn [fst snd] in *.
    destruct (can_add c s' t w None) eqn:Ec.
    - apply IH; [exact Hnd'| | |].
      + cbn [snd]. intros w' Hw'. apply filter_neq_in; [apply Hin; right; exact Hw'|].
        intros ->. contradiction.
      + cbn [fst]. destruct Hfo as [_ Hfo]. destruct (Hfo w (Hin w (or_introl eq_refl))) as [Hr He].
        apply AInv_do_alloc_w; [exact Hai|exact Ht|exact Hr|exact He|eapply can_add_holder; exact Ec].
      + cbn [fst snd]. apply FreeOK_after_alloc. exact Hfo.
    - apply IH; [exact Hnd'|intros w' Hw'; apply Hin; right; exact Hw'|exact Hai|exact Hfo]. }
  apply (G cands (s, free1)).
  - apply NoDup_filter. apply Hf1.
  - intros w Hw. apply filter_In in Hw. apply Hw.
  - exact Ha.
  - exact Hf1.
Qed.

Lemma alloc_with_facility_inv s free t : AInv s -> FreeOK s free -> t < nT c -> t_needfac c t = true ->
  AInv (fst (alloc_with_facility c s free t)) /\ FreeOK (fst (alloc_with_facility c s free t)) (snd (alloc_with_facility c s free t)).
Proof.
  intros Ha Hfree Ht Hnf. unfold alloc_with_facility.
  destruct (t_comp c t) as [k|]; [|split; assumption].
  destruct (pw (cd s k)) as [p|]; [|split; assumption].
  set (alloc_f := filter (fun f => has_fskill c f t && f_targets c f t)
                    (sort_facs c (t_frule c t) t (filter (fun f => rstate_eqb (rst (fd s f)) RFree) (wp_facs c p)))).
  assert (Hrange : forall f, In f alloc_f -> f < nF c).
  { intros f Hf. unfold alloc_f in Hf. apply filter_In in Hf. destruct Hf as [Hf _].
    assert (Hin : In f (filter (fun f => rstate_eqb (rst (fd s f)) RFree) (wp_facs c p))).
    { unfold sort_facs, sort_by, sort_by3 in Hf.
      destruct (t_frule c t) as [|q|q]; try exact Hf; try (apply stable_sort_in in Hf; exact Hf).
      destruct q as [q|q|]; try exact Hf; try (apply stable_sort_in in Hf; exact Hf).
      destruct q; try exact Hf; apply stable_sort_in in Hf; exact Hf. }
    apply filter_In in Hin. apply (Hf_range p). apply Hin. }
  assert (G : forall l (acc : pstate * list nat), (forall f, In f l -> f < nF c) ->
            AInv (fst acc) -> FreeOK (fst acc) (snd acc) ->
            let r := fold_left (fun (acc : pstate * list nat) f =>
                       let (s', fr) := acc in
                       let cands := filter (fun w => has_wskill c w t && w_targets c w t && can_add c s' t w (Some f)) fr in
                       let cands := sort_workers c (t_wrule c t) t (Some p) cands in
                       match cands with
                       | [] => acc
                       | w :: _ => (do_alloc_f (do_alloc_w s' t w) t f, filter (fun w' => negb (Nat.eqb w' w)) fr)
                       end) l acc in
            AInv (fst r) /\ FreeOK (fst r) (snd r)).
  { induction l as [|f l IH]; intros [s' fr] Hl Hai Hfo; cbn [fold_left]; [split; assumption|].
    cbn [fst snd] in *.
    destruct (sort_workers c (t_wrule c t) t (Some p)
                (filter (fun w => has_wskill c w t && w_targets c w t && can_add c s' t w (Some f)) fr)) as [|w r] eqn:Es.
    - apply IH; [intros f' Hf'; apply Hl; right; exact Hf'|exact Hai|exact Hfo].
    - assert (Hw : In w (filter (fun w => has_wskill c w t && w_targets c w t && can_add c s' t w (Some f)) fr)).
      { eapply Permutation_in; [apply sort_workers_perm|]. rewrite Es. left. reflexivity. }
      apply filter_In in Hw. destruct Hw as [Hwin Hwc]. apply andb_true_iff in Hwc. destruct Hwc as [_ Hca].
      destruct Hfo as [Hn Hfo]. destruct (Hfo w Hwin) as [Hr He].
      assert (Hok : holder_ok (st (td s' t)) = true) by (eapply can_add_holder; exact Hca).
      assert (A1 : AInv (do_alloc_w s' t w)) by (apply AInv_do_alloc_w; assumption).
      apply IH; [intros f' Hf'; apply Hl; right; exact Hf'| |].
      + cbn [fst]. apply AInv_do_alloc_f; [exact A1|exact Ht|apply Hl; left; reflexivity| | |exact Hnf].
        * unfold do_alloc_w. cbn [fd with_wd with_td]. eapply can_add_fac_free. exact Hca.
        * unfold do_alloc_w. cbn [td with_wd with_td]. rewrite upd_same. cbn [st set_aw]. exact Hok.
      + cbn [fst snd]. pose proof (FreeOK_after_alloc s' t w fr (conj Hn Hfo)) as [Hn' Hf'].
        split; [exact Hn'|]. intros w' Hw'. destruct (Hf' w' Hw') as [R1 R2]. split; [exact R1|exact R2]. }
  apply (G alloc_f (s, free)); [exact Hrange|exact Ha|exact Hfree].
Qed.

Lemma AInv_frame s s' : td s' = td s -> wd s' = wd s -> fd s' = fd s -> AInv s -> AInv s'.
Proof.
  intros E1 E2 E3. apply AInv_ext; intros; rewrite ?E1, ?E2, ?E3; try split; try reflexivity; assumption.
Qed.
Lemma FreeOK_frame s s' l : wd s' = wd s -> FreeOK s l -> FreeOK s' l.
Proof. intros E [H1 H2]. split; [exact H1|]. intros w Hw. rewrite E. apply H2. exact Hw. Qed.

Lemma alloc_task_inv acc t : t < nT c ->
  AInv (fst (fst acc)) -> FreeOK (fst (fst acc)) (snd (fst acc)) ->
  AInv (fst (fst (alloc_task c acc t))) /\ FreeOK (fst (fst (alloc_task c acc t))) (snd (fst (alloc_task c acc t))).
Proof.
  destruct acc as [[s free] moved]. cbn [fst snd]. intros Ht Ha Hf. unfold alloc_task.
  destruct (place_for c s moved t) as [s1 moved1] eqn:Ep.
  assert (E1 : td s1 = td s) by (change s1 with (fst (s1, moved1)); rewrite <- Ep; apply td_place_for).
  assert (E2 : wd s1 = wd s) by (change s1 with (fst (s1, moved1)); rewrite <- Ep; apply (pi_place_for c _ wd); reflexivity).
  assert (E3 : fd s1 = fd s) by (change s1 with (fst (s1, moved1)); rewrite <- Ep; apply (pi_place_for c _ fd); reflexivity).
  assert (Ha1 : AInv s1) by (eapply AInv_frame; eassumption).
  assert (Hf1 : FreeOK s1 free) by (eapply FreeOK_frame; eassumption).
  destruct (t_auto c t); cbn [fst snd]; [split; assumption|].
  destruct (t_needfac c t) eqn:Enf.
  - destruct (alloc_with_facility c s1 free t) as [s2 f2] eqn:E. cbn [fst snd].
    pose proof (alloc_with_facility_inv s1 free t Ha1 Hf1 Ht Enf) as R. rewrite E in R. exact R.
  - destruct (alloc_workers c s1 free t) as [s2 f2] eqn:E. cbn [fst snd].
    pose proof (alloc_workers_inv s1 free t Ha1 Hf1 Ht) as R. rewrite E in R. exact R.
Qed.

(* FREE workers hold nothing (established by the absence refresh) *)
Definition FreeEmpty (s : pstate) : Prop := forall w, w < nW c -> rst (wd s w) = RFree -> asg (wd s w) = [].

Lemma sort_tasks_in rule s l x : In x (sort_tasks c rule s l) <-> In x l.
Proof. unfold sort_tasks, sort_by. apply stable_sort_in. Qed.

Lemma AInv_allocate o s : AInv s -> FreeEmpty s -> AInv (allocate c o s).
Proof.
  intros Ha Hfe. unfold allocate.
  set (cand := filter (fun t => is_ready (st (td s t)) || is_working (st (td s t))) (tasks c)).
  set (free := filter (fun w => rstate_eqb (rst (wd s w)) RFree) (all_workers c)).
  assert (Hf : FreeOK s free).
  { split; [apply NoDup_filter; exact Hw_nodup|].
    intros w Hw. apply filter_In in Hw. destruct Hw as [Hin Hr].
    assert (Hlt : w < nW c) by (apply Hw_range; exact Hin).
    split; [exact Hlt|]. apply Hfe; [exact Hlt|]. destruct (rst (wd s w)); try discriminate. reflexivity. }
  assert (G : forall l acc, (forall t, In t l -> t < nT c) ->
             AInv (fst (fst acc)) -> FreeOK (fst (fst acc)) (snd (fst acc)) ->
             AInv (fst (fst (fold_left (alloc_task c) l acc)))).
  { induction l as [|t l IH]; intros acc Hl H1 H2; cbn [fold_left]; [exact H1|].
    destruct (alloc_task_inv acc t (Hl t (or_introl eq_refl)) H1 H2) as [R1 R2].
    apply IH; [intros x Hx; apply Hl; right; exact Hx|exact R1|exact R2]. }
  apply G; [|exact Ha|exact Hf].
  intros t Hin. apply sort_tasks_in in Hin. unfold cand in Hin. apply filter_In in Hin.
  destruct Hin as [Hin _]. apply in_seq in Hin. lia.
Qed.


(* ------------------------------------------------------- the other phases *)
Lemma AInv_check_ready s : AInv s -> AInv (check_ready c s).
Proof.
  apply AInv_ext.
  - intros t. unfold check_ready. cbn [td with_td]. rewrite tab_spec.
    destruct (t <? nT c); [|split; reflexivity].
    destruct (is_none (st (td s t)) && ready_gate c s t); split; reflexivity.
  - intros t Hok. fold (stof (check_ready c s) t). rewrite stof_check_ready.
    fold (stof s t) in Hok.
    destruct (is_none (stof s t)) eqn:En; [unfold holder_ok in Hok; rewrite En in Hok; discriminate|].
    rewrite andb_false_r. cbn [andb]. exact Hok.
  - intros w. reflexivity.
  - intros f. reflexivity.
Qed.

Lemma AInv_keeps s s' : keeps s s' -> wd s' = wd s -> fd s' = fd s -> AInv s -> AInv s'.
Proof.
  intros K E2 E3. apply AInv_ext.
  - intros t. destruct (K t) as (_ & _ & A & B). split; assumption.
  - intros t. destruct (K t) as (A & _). rewrite A. exact (fun h => h).
  - intros w. rewrite E2. reflexivity.
  - intros f. rewrite E3. reflexivity.
Qed.

Lemma AInv_pcs s : AInv s -> AInv (product_check_state c s).
Proof. apply (AInv_frame s (product_check_state c s)); reflexivity. Qed.

Lemma AInv_check_removing cr s : AInv s -> AInv (check_removing c cr s).
Proof.
  apply AInv_frame; [apply td_check_removing|apply (pi_check_removing c _ wd); reflexivity
                    |apply (pi_check_removing c _ fd); reflexivity].
Qed.

Lemma AInv_update o s : AInv s -> AInv (update c o s).
Proof.
  intros H. unfold update.
  apply (AInv_keeps _ _ (keeps_update_pert c _ _)).
  - apply (pi_update_pert c _ wd); reflexivity.
  - apply (pi_update_pert c _ fd); reflexivity.
  - apply AInv_pcs, AInv_check_ready, AInv_check_removing, AInv_pcs, AInv_check_finished. exact H.
Qed.

Lemma asg_refresh k ab x : asg (refresh_one k ab x) = asg x.
Proof. unfold refresh_one. destruct (mem k ab); [reflexivity|]. destruct (asg x); reflexivity. Qed.

Lemma asg_absence_update w s :
  (forall r, asg (wd (absence_update c w s) r) = asg (wd s r)) /\
  (forall r, asg (fd (absence_update c w s) r) = asg (fd s r)).
Proof.
  unfold absence_update. destruct w; cbn [wd fd with_wd with_fd]; split; intros r; rewrite tab_spec;
    match goal with |- context [if ?b then _ else _] => destruct b end; try reflexivity; apply asg_refresh.
Qed.

Lemma AInv_absence_update w s : AInv s -> AInv (absence_update c w s).
Proof.
  apply AInv_ext.
  - intros t. rewrite td_absence_update. split; reflexivity.
  - intros t. rewrite td_absence_update. exact (fun h => h).
  - apply asg_absence_update.
  - apply asg_absence_update.
Qed.

Lemma FreeEmpty_absence_update s : FreeEmpty (absence_update c true s).
Proof.
  intros w Hw. unfold absence_update. cbn [wd with_wd with_fd]. rewrite tab_spec.
  apply Nat.ltb_lt in Hw. rewrite Hw. unfold refresh_one.
  destruct (mem (time s) (w_abs c w)); [discriminate|].
  destruct (asg (wd s w)); [reflexivity|discriminate].
Qed.

Lemma asg_set_rst_fold (d : nat -> rlive) l v r :
  asg (fold_left (fun d w => set_rst d w v) l d r) = asg (d r).
Proof.
  revert d. induction l as [|x l IH]; intros d; cbn [fold_left]; [reflexivity|].
  rewrite IH. unfold set_rst. rewrite upd_eq. destruct (Nat.eqb r x) eqn:E; [|reflexivity].
  apply Nat.eqb_eq in E. subst. reflexivity.
Qed.
Lemma asg_free_to_working_fold (d : nat -> rlive) l r :
  asg (fold_left free_to_working l d r) = asg (d r).
Proof.
  revert d. induction l as [|x l IH]; intros d; cbn [fold_left]; [reflexivity|].
  rewrite IH. unfold free_to_working. destruct (rstate_eqb (rst (d x)) RFree); [|reflexivity].
  unfold set_rst. rewrite upd_eq. destruct (Nat.eqb r x) eqn:E; [|reflexivity].
  apply Nat.eqb_eq in E. subst. reflexivity.
Qed.

Lemma AInv_cw_one s t : AInv s -> AInv (cw_one c s t).
Proof.
  apply AInv_ext.
  - intros t'. unfold cw_one. destruct (is_ready (st (td s t))).
    + destruct (t_needfac c t); cbn [td with_td with_wd with_fd]; rewrite upd_eq;
        destruct (Nat.eqb t' t) eqn:E; try (split; reflexivity); apply Nat.eqb_eq in E; subst; split; reflexivity.
    + destruct (is_working (st (td s t))); [|split; reflexivity].
      destruct (t_needfac c t && negb match aw (td s t) with [] => true | _ :: _ => false end); split; reflexivity.
  - intros t' Hok. fold (stof (cw_one c s t) t'). rewrite stof_cw_one.
    destruct (Nat.eqb t' t && is_ready (stof s t)); [reflexivity|exact Hok].
  - intros w. unfold cw_one. destruct (is_ready (st (td s t))).
    + destruct (t_needfac c t); cbn [wd with_td with_wd with_fd]; apply asg_set_rst_fold.
    + destruct (is_working (st (td s t))); [|reflexivity].
      destruct (t_needfac c t && negb match aw (td s t) with [] => true | _ :: _ => false end);
        cbn [wd with_wd with_fd]; apply asg_free_to_working_fold.
  - intros f. unfold cw_one. destruct (is_ready (st (td s t))).
    + destruct (t_needfac c t); cbn [fd with_td with_wd with_fd]; [apply asg_set_rst_fold|reflexivity].
    + destruct (is_working (st (td s t))); [|reflexivity].
      destruct (t_needfac c t && negb match aw (td s t) with [] => true | _ :: _ => false end);
        cbn [fd with_wd with_fd]; [apply asg_free_to_working_fold|reflexivity].
Qed.

Lemma AInv_check_working s : AInv s -> AInv (check_working c s).
Proof.
  intros H. unfold check_working. apply (fold_left_inv AInv); [exact H|].
  intros x t Hx. apply AInv_cw_one. exact Hx.
Qed.

Lemma AInv_step_allocate o s : AInv s -> AInv (step_allocate c o s).
Proof.
  intros H. unfold step_allocate.
  set (w := negb (mem (time s) (o_abs o))).
  assert (H2 : AInv (if w then allocate c o (absence_update c w s) else absence_update c w s)).
  { destruct w; [|apply AInv_absence_update; exact H].
    apply AInv_allocate; [apply AInv_absence_update; exact H|apply FreeEmpty_absence_update]. }
  destruct (w || o_auto_abs o); [|exact H2].
  apply AInv_pcs, AInv_check_working. exact H2.
Qed.

Lemma AInv_step_perform o s : AInv s -> AInv (step_perform c o s).
Proof.
  apply AInv_ext.
  - intros t. unfold step_perform.
    destruct (negb (mem (time s) (o_abs o))); [|destruct (o_auto_abs o)]; try (split; reflexivity);
      unfold perform; cbn [td with_td add_cost]; rewrite tab_spec; destruct (t <? nT c); try (split; reflexivity);
      match goal with |- context [if ?b then _ else _] => destruct b end; split; reflexivity.
  - intros t. fold (stof (step_perform c o s) t) (stof s t).
    assert (E : stof (step_perform c o s) t = stof s t).
    { unfold step_perform, stof. destruct (negb (mem (time s) (o_abs o))); [rewrite st_perform; reflexivity|].
      destruct (o_auto_abs o); [rewrite st_perform; reflexivity|reflexivity]. }
    rewrite E. exact (fun h => h).
  - intros w. unfold step_perform. destruct (negb (mem (time s) (o_abs o))); [reflexivity|]. destruct (o_auto_abs o); reflexivity.
  - intros f. unfold step_perform. destruct (negb (mem (time s) (o_abs o))); [reflexivity|]. destruct (o_auto_abs o); reflexivity.
Qed.

Lemma AInv_initialize o s : o_init_state o = true -> AInv (initialize c o s).
Proof.
  intros Hs. unfold initialize. rewrite Hs.
  match goal with |- AInv (with_cd ?y ?f) => apply (AInv_frame y (with_cd y f) eq_refl eq_refl eq_refl) end.
  apply AInv_check_ready.
  match goal with |- AInv (update_pert c 0 (with_cpl ?x _)) => set (s1 := x) end.
  apply (AInv_keeps _ _ (keeps_update_pert c _ _));
    [apply (pi_update_pert c _ wd); reflexivity|apply (pi_update_pert c _ fd); reflexivity|].
  assert (Et : forall t, t < nT c -> aw (td s1 t) = [] /\ af (td s1 t) = []).
  { intros t Ht. unfold s1. cbn [td]. rewrite tab_spec. apply Nat.ltb_lt in Ht. rewrite Ht.
    destruct (o_init_log o && exempt c t); split; reflexivity. }
  assert (Ew : forall w, w < nW c -> asg (wd s1 w) = []).
  { intros w Hw. unfold s1. cbn [wd]. rewrite tab_spec. apply Nat.ltb_lt in Hw. rewrite Hw. reflexivity. }
  assert (Ef : forall f, f < nF c -> asg (fd s1 f) = []).
  { intros f Hf. unfold s1. cbn [fd]. rewrite tab_spec. apply Nat.ltb_lt in Hf. rewrite Hf. reflexivity. }
  constructor; cbn [td wd fd with_cpl].
  - intros t w Ht Hin. destruct (Et t Ht) as [E _]. rewrite E in Hin. contradiction.
  - intros w t Hw Hin. rewrite (Ew w Hw) in Hin. contradiction.
  - intros t f Ht Hin. destruct (Et t Ht) as [_ E]. rewrite E in Hin. contradiction.
  - intros f t Hf Hin. rewrite (Ef f Hf) in Hin. contradiction.
  - intros w Hw. rewrite (Ew w Hw). cbn. lia.
  - intros f Hf. rewrite (Ef f Hf). cbn. lia.
  - intros t Ht. destruct (Et t Ht) as [E1 E2]. rewrite E1, E2. split; constructor.
  - intros t Ht [Hne|Hne]; destruct (Et t Ht) as [E1 E2]; congruence.
  - intros t Ht _. apply (Et t Ht).
Qed.

Theorem AInv_all_runs o s :
  (o_init_state o = true \/ AInv s) ->
  Forall (fun ob : obs => AInv (snd ob)) (snd (simulate c o s)) /\ AInv (fst (simulate c o s)).
Proof.
  intros Hstart.
  destruct (simulate_trace c o s) as (tr & Htr & Esnd). rewrite Esnd.
  assert (H0 : AInv (initialize c o s)).
  { destruct (o_init_state o) eqn:E; [apply AInv_initialize; exact E|].
    destruct Hstart as [H|H]; [discriminate|]. unfold initialize. rewrite E.
    match goal with |- AInv ?y => apply (AInv_frame s y eq_refl eq_refl eq_refl H) end. }
  destruct (trace_invariant c o AInv AInv AInv AInv AInv
              (fun x Hx => AInv_update o x Hx)
              (fun x Hx => AInv_step_allocate o x Hx)
              (fun x Hx => AInv_step_perform o x Hx)
              (fun x Hx => AInv_frame x (step_record c o x) eq_refl eq_refl eq_refl Hx)
              (fun x Hx => AInv_frame x (with_time x (S (time x))) eq_refl eq_refl eq_refl Hx)
              _ _ _ Htr H0) as [Hall (su & Hsu & x & Ex)].
  split.
  - eapply Forall_impl; [|exact Hall]. intros [[k ph] sn]. cbn. destruct ph; exact (fun h => h).
  - rewrite Ex. apply (AInv_frame su (with_status su x) eq_refl eq_refl eq_refl Hsu).
Qed.


End AllocInv.

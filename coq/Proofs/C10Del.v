(* C10 (f): for task priority rules that do not read PERT values, without
   individually absent resources and with perform_auto_task_while_absence_time
   off, the run with project-wide absence list L and the run without absence
   proceed in lock step on the key of the state: an absence step of the first
   run leaves the key unchanged (up to the worker / facility states, which the
   next working step rewrites), a working step is matched by the next step of
   the second run.  Hence the recorded rows of the first run, with the rows at
   the listed positions deleted, are key-equal to the rows of the second. *)
From Coq Require Import List ZArith QArith Bool Arith Lia.
From PV Require Import Model.Types Model.Sim Model.LogEdit Proofs.Base Proofs.Frames Proofs.Proj Proofs.RunLemmas
  Proofs.LogsProof Proofs.C13Proof Proofs.C13Run Proofs.FinishComplete Proofs.C15Stable Proofs.C15Proof
  Proofs.KeyCong Proofs.KeepList.
Import ListNotations.
Open Scope nat_scope.

Definition no_abs (o : opts) : opts :=
  mkOpts (o_rule o) [] (o_auto_abs o) (o_init_state o) (o_init_log o) (o_max_time o) (o_crank o).

Section Del.
Variable c : cfg.
Variable oA : opts.
Notation oB := (no_abs oA).
Notation L := (o_abs oA).
Notation KE := (KEg c true).
Notation KA := (KEg c false).

Hypothesis Hwabs : forall w, w_abs c w = [].
Hypothesis Hfabs : forall f, f_abs c f = [].
Hypothesis HF : Forest c.

Lemma all_finished_KE k x y : KEg c k x y -> all_finished c x = all_finished c y.
Proof. intros H. unfold all_finished. apply forallb_ext'. intros t. rewrite (KE_st c k x y t H). reflexivity. Qed.

Lemma update_pert_key tm x : KE (update_pert c tm x) x.
Proof.
  split; [|split; [|split; [|split]]].
  - intros t. destruct (keeps_update_pert c tm x t) as (K1 & K2 & K3 & K4). unfold strip. rewrite K1, K2, K3, K4. reflexivity.
  - intros w. rewrite (pi_update_pert c _ wd) by reflexivity. reflexivity.
  - intros f. rewrite (pi_update_pert c _ fd) by reflexivity. reflexivity.
  - intros j. rewrite (pi_update_pert c _ cd) by reflexivity. reflexivity.
  - intros p. rewrite (pi_update_pert c _ wpc) by reflexivity. reflexivity.
Qed.

(* __update is idempotent on the key *)
Lemma update_twice_key o s : PInv s -> KE (update c o (update c o s)) (update c o s).
Proof. intros HP. rewrite (update_stable c o s HP). apply update_pert_key. Qed.

Lemma with_time_key k x : KE (with_time x k) x. Proof. repeat split. Qed.
Lemma with_status_key v x : KE (with_status x v) x. Proof. repeat split. Qed.

(* ------------------------------------------------------------ one step *)
Definition half (o : opts) (s : pstate) : pstate := step_perform c o (step_allocate c o s).

Lemma time_half o s : time (half o s) = time s.
Proof. unfold half. rewrite (time_step_perform c o), (time_step_allocate c o). reflexivity. Qed.

(* an absence step of run A *)
Lemma absence_half u : o_auto_abs oA = false -> mem (time u) L = true -> KA (half oA u) u.
Proof.
  intros Hauto Hm. unfold half. rewrite step_perform_flag, (time_step_allocate c oA), step_allocate_flag, Hm. cbn [negb].
  unfold sp_flag, sa_flag. rewrite Hauto. cbn [orb].
  apply (KE_trans c false _ (absence_update c false u)); [apply KE_weaken; apply add_cost_key|].
  unfold absence_update. split; [reflexivity|]. split; [|split; [|split; reflexivity]].
  - intros w. cbn [wd with_wd with_fd]. rewrite tab_spec. unfold req. destruct (w <? nW c); reflexivity.
  - intros f. cbn [fd with_wd with_fd]. rewrite tab_spec. unfold req. destruct (f <? nF c); reflexivity.
Qed.

(* a working step of run A against a step of run B *)
Lemma working_half u v : SortAgree c (o_rule oA) u v -> mem (time u) L = false -> KA u v -> KE (half oA u) (half oB v).
Proof.
  intros Hrule Hm H. unfold half. rewrite !step_perform_flag, !(time_step_allocate c), !step_allocate_flag, Hm.
  change (negb (mem (time v) (o_abs oB))) with true. cbn [negb].
  change (sa_flag c oB true v) with (sa_flag c oA true v).
  change (sp_flag c oB true) with (sp_flag c oA true).
  apply sp_flag_KE. apply sa_flag_KE_gen; assumption.
Qed.

Definition next (o : opts) (u : pstate) : pstate :=
  let sr := step_record c o (half o u) in with_time sr (S (time sr)).

Lemma next_key o u : KE (next o u) (half o u).
Proof.
  unfold next. eapply KE_trans; [apply with_time_key|]. rewrite step_record_flag. apply record_key.
Qed.

Lemma PInv_KE k x y : KEg c k x y -> PInv x -> PInv y.
Proof.
  intros (_ & _ & _ & D & E) [H1 H2]. split.
  - intros j p. rewrite <- E, <- D. apply H1.
  - intros p. rewrite <- E. apply H2.
Qed.

Lemma PInv_next o u : PInv u -> PInv (next o u).
Proof.
  intros H. apply (PInv_KE true (half o u)); [apply KE_sym; apply next_key|].
  unfold half. apply (PInv_ext (step_allocate c o u)).
  - intros j. unfold step_perform. destruct (negb (mem (time (step_allocate c o u)) (o_abs o))); [reflexivity|destruct (o_auto_abs o); reflexivity].
  - unfold step_perform. destruct (negb (mem (time (step_allocate c o u)) (o_abs o))); [reflexivity|destruct (o_auto_abs o); reflexivity].
  - apply (PInv_step_allocate c HF). exact H.
Qed.

(* ----------------------------------------------------------- simulation *)
(* what makes an absence step a stutter is left open: an invariant Iv of the
   loop heads of run A under which the step keeps the key *)
Variable Iv IvB : pstate -> Prop.
Hypothesis Iv_next : forall x, Iv x -> Iv (next oA (update c oA x)).
Hypothesis IvB_next : forall y, IvB y -> IvB (next oB (update c oB y)).
Hypothesis Iv_stutter : forall x, Iv x -> mem (time x) L = true -> KA (half oA (update c oA x)) (update c oA x).
(* the two runs order the candidate tasks the same way at matched loop heads *)
Hypothesis Iv_sort : forall x y, Iv x -> IvB y -> KA (update c oA x) (update c oA y) ->
  SortAgree c (o_rule oA) (update c oA x) (update c oA y).

Definition R (ra rb : row) : Prop := fst ra = true /\ fst rb = true /\ KE (snd ra) (snd rb).

Definition HeadRel (x y : pstate) : Prop :=
  KE (update c oA x) (update c oA y)
  \/ (KA (update c oA x) (update c oA y) /\ all_finished c (update c oA x) = false).

Lemma sim x trA fA : trace_from c oA x trA fA -> status fA = StSuccess ->
  forall y, Iv x -> IvB y -> PInv x -> HeadRel x y -> time y <= time x ->
  exists trB fB, trace_from c oB y trB fB /\ status fB = StSuccess /\ KE fA fB
                 /\ Forall2 R (keep L (time x) (perf_rows oA trA)) (perf_rows oB trB).
Proof.
  induction 1 as [x Ha|x Ha Hm|x rest fA Ha Hm s1 sa sp sr Hrest IH]; intros Hst y HI HIB HP HR Hty.
  - destruct HR as [HR|[_ HR]]; [|rewrite Ha in HR; discriminate].
    exists [(time (update c oB y), PUpdated, update c oB y)], (with_status (update c oB y) StSuccess).
    split; [apply tr_success; change (update c oB y) with (update c oA y); rewrite <- (all_finished_KE _ _ _ HR); exact Ha|].
    split; [reflexivity|]. split.
    + change (update c oB y) with (update c oA y).
      eapply KE_trans; [apply with_status_key|]. eapply KE_trans; [exact HR|]. apply KE_sym. apply with_status_key.
    + cbn. constructor.
  - cbn in Hst. discriminate.
  - assert (Et : time s1 = time x) by (apply (time_update c oA)).
    assert (HKA : KA s1 (update c oA y)) by (destruct HR as [HR|[HR _]]; [apply KE_weaken|]; exact HR).
    assert (Esp : sp = half oA s1) by reflexivity.
    assert (Enext : with_time sr (S (time sr)) = next oA s1) by reflexivity.
    assert (Etn : time (next oA s1) = S (time x)).
    { unfold next. cbn [time with_time]. rewrite (time_step_record c oA), time_half. rewrite Et. reflexivity. }
    assert (HP1 : PInv s1) by (apply PInv_update; exact HP).
    rewrite Enext in *.
    cbn [perf_rows]. fold (perf_rows oA rest).
    change (wk oA sp) with (negb (mem (time sp) L)). rewrite Esp, time_half, Et.
    destruct (mem (time x) L) eqn:Em.
    + (* absence step: run B waits *)
      assert (HK : KA (next oA s1) s1).
      { eapply KE_trans; [apply KE_weaken; apply next_key|]. apply Iv_stutter; assumption. }
      destruct (IH Hst y) as (trB & fB & HtB & HsB & HfB & Hrows).
      * apply Iv_next. exact HI.
      * exact HIB.
      * apply PInv_next. exact HP1.
      * right. split.
        -- eapply KE_trans; [apply update_KE; exact HK|].
           eapply KE_trans; [apply KE_weaken; apply update_twice_key; exact HP|]. exact HKA.
        -- rewrite (all_finished_KE false _ (update c oA s1)) by (apply update_KE; exact HK).
           rewrite (all_finished_KE true _ s1) by (apply update_twice_key; exact HP). exact Ha.
      * rewrite Etn. lia.
      * exists trB, fB. split; [exact HtB|]. split; [exact HsB|]. split; [exact HfB|].
        cbn [keep]. rewrite Em. rewrite Etn in Hrows. exact Hrows.
    + (* working step: run B steps too *)
      set (v := update c oB y).
      assert (HKE : KE (half oA s1) (half oB v)).
      { apply working_half; [|rewrite Et; exact Em|exact HKA]. apply Iv_sort; assumption. }
      assert (HKn : KE (next oA s1) (next oB v)).
      { eapply KE_trans; [apply next_key|]. eapply KE_trans; [exact HKE|]. apply KE_sym. apply next_key. }
      assert (Etv : time v = time y) by (apply (time_update c oB)).
      assert (Etnv : time (next oB v) = S (time y)).
      { unfold next. cbn [time with_time]. rewrite (time_step_record c oB), time_half. rewrite Etv. reflexivity. }
      destruct (IH Hst (next oB v)) as (trB & fB & HtB & HsB & HfB & Hrows).
      * apply Iv_next. exact HI.
      * apply IvB_next. exact HIB.
      * apply PInv_next. exact HP1.
      * left. apply update_KE. exact HKn.
      * rewrite Etn, Etnv. lia.
      * exists ((time v, PUpdated, v) :: (time v, PAllocated, step_allocate c oB v) :: (time v, PPerformed, half oB v)
                  :: (time v, PRecorded, step_record c oB (half oB v)) :: trB), fB.
        split.
        { apply tr_step.
          - change (update c oB y) with (update c oA y). rewrite <- (all_finished_KE false _ _ HKA). exact Ha.
          - fold v. rewrite Etv. change (o_max_time oB) with (o_max_time oA). pose proof (time_update c oA x) as Eux. lia.
          - exact HtB. }
        split; [exact HsB|]. split; [exact HfB|].
        cbn [perf_rows keep]. rewrite Em. constructor.
        { split; [reflexivity|]. split; [reflexivity|]. exact HKE. }
        rewrite Etn in Hrows. exact Hrows.
Qed.

End Del.

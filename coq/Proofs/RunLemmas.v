(* The shape of every run: the observer trace of [simulate] is a sequence of
   blocks  updated / allocated / performed / recorded  produced by the four
   phase functions, ending with an `updated` snapshot; the fuel of [run] is
   never exhausted.  Generic induction principles for phase-indexed invariants. *)
From Coq Require Import List ZArith QArith Bool Arith Lia.
From PV Require Import Model.Types Model.Sim Proofs.Base Proofs.Frames.
Import ListNotations.
Open Scope nat_scope.

Section Run.
Variable c : cfg.
Variable o : opts.

Notation update := (update c o).
Notation step_allocate := (step_allocate c o).
Notation step_perform := (step_perform c o).
Notation step_record := (step_record c o).

(* [trace_from s tr sf]: starting the while loop in state s produces the
   snapshots tr and returns sf *)
Inductive trace_from : pstate -> list obs -> pstate -> Prop :=
| tr_success s :
    all_finished c (update s) = true ->
    trace_from s [(time (update s), PUpdated, update s)] (with_status (update s) StSuccess)
| tr_failure s :
    all_finished c (update s) = false ->
    o_max_time o <= time (update s) ->
    trace_from s [(time (update s), PUpdated, update s)] (with_status (update s) StFailure)
| tr_step s rest sf :
    all_finished c (update s) = false ->
    time (update s) < o_max_time o ->
    let s1 := update s in
    let sa := step_allocate s1 in
    let sp := step_perform sa in
    let sr := step_record sp in
    trace_from (with_time sr (S (time s1))) rest sf ->
    trace_from s ((time s1, PUpdated, s1) :: (time s1, PAllocated, sa) :: (time s1, PPerformed, sp)
                  :: (time s1, PRecorded, sr) :: rest) sf.

(* time bookkeeping *)
Lemma time_with_td s f : time (with_td s f) = time s. Proof. reflexivity. Qed.

Lemma time_fold {B} (f : pstate -> B -> pstate) l s :
  (forall x b, time (f x b) = time x) -> time (fold_left f l s) = time s.
Proof.
  intros H. revert s; induction l as [|b l IH]; intros s; simpl; [reflexivity|].
  rewrite IH. apply H.
Qed.

Lemma time_finish_task s t : time (finish_task c s t) = time s.
Proof. unfold finish_task. destruct (t_needfac c t); reflexivity. Qed.

Lemma time_finish_pass s : time (fst (finish_pass c s)) = time s.
Proof.
  unfold finish_pass.
  apply (fold_left_inv (fun acc : pstate * bool => time (fst acc) = time s)); [reflexivity|].
  intros [s' ch] t H. cbn [fst] in *. destruct (finish_gate c s' t); cbn [fst]; [|exact H].
  rewrite time_finish_task. exact H.
Qed.

Lemma time_finish_loop fuel : forall s, time (finish_loop c fuel s) = time s.
Proof.
  induction fuel as [|f IH]; intros s; simpl; [reflexivity|].
  destruct (finish_pass c s) as [s' ch] eqn:E.
  assert (H : time s' = time s) by (change s' with (fst (s', ch)); rewrite <- E; apply time_finish_pass).
  destruct ch; [rewrite IH|]; exact H.
Qed.

Lemma time_detach_one s k : time (detach_one s k) = time s.
Proof. unfold detach_one. destruct (pw (cd s k)); reflexivity. Qed.
Lemma time_detach_tree s k : time (detach_tree c s k) = time s.
Proof. unfold detach_tree. apply time_fold. intros; apply time_detach_one. Qed.
Lemma time_check_removing cr s : time (check_removing c cr s) = time s.
Proof. unfold check_removing. apply time_fold. intros; apply time_detach_tree. Qed.

Lemma time_fwd_edge s src e : time (fwd_edge s src e) = time s.
Proof.
  unfold fwd_edge. destruct e as [n k]; cbn [fst snd]. destruct k; cbv zeta;
  match goal with |- time (if ?b then _ else _) = _ => destruct b end; reflexivity.
Qed.
Lemma time_bwd_edge s src e : time (bwd_edge s src e) = time s.
Proof.
  unfold bwd_edge. destruct e as [n k]; cbn [fst snd]. destruct k; cbv zeta;
  match goal with |- time (if ?b then _ else _) = _ => destruct b end; reflexivity.
Qed.
Lemma time_fwd_round s front : time (fst (fwd_round c s front)) = time s.
Proof.
  unfold fwd_round.
  apply (fold_left_inv (fun acc : pstate * list nat => time (fst acc) = time s)); [reflexivity|].
  intros acc src H.
  apply (fold_left_inv (fun a2 : pstate * list nat => time (fst a2) = time s)); [exact H|].
  intros a2 e H2. cbn [fst]. rewrite time_fwd_edge. exact H2.
Qed.
Lemma time_bwd_round s front : time (fst (bwd_round c s front)) = time s.
Proof.
  unfold bwd_round.
  apply (fold_left_inv (fun acc : pstate * list nat => time (fst acc) = time s)); [reflexivity|].
  intros acc src H.
  apply (fold_left_inv (fun a2 : pstate * list nat => time (fst a2) = time s)); [exact H|].
  intros a2 e H2. cbn [fst]. rewrite time_bwd_edge. exact H2.
Qed.
Lemma time_fwd_loop fuel : forall s front, time (fwd_loop c fuel s front) = time s.
Proof.
  induction fuel as [|f IH]; intros s front; simpl; [reflexivity|].
  destruct front; [reflexivity|]. destruct (fwd_round c s (n :: front)) as [s' nx] eqn:E.
  rewrite IH. change s' with (fst (s', nx)). rewrite <- E. apply time_fwd_round.
Qed.
Lemma time_bwd_loop fuel : forall s front, time (bwd_loop c fuel s front) = time s.
Proof.
  induction fuel as [|f IH]; intros s front; simpl; [reflexivity|].
  destruct front; [reflexivity|]. destruct (bwd_round c s (n :: front)) as [s' nx] eqn:E.
  rewrite IH. change s' with (fst (s', nx)). rewrite <- E. apply time_bwd_round.
Qed.
Lemma time_update_pert tm s : time (update_pert c tm s) = time s.
Proof.
  unfold update_pert, pert_backward, pert_forward.
  match goal with |- time (match ?l with [] => _ | _ => _ end) = _ => destruct l end.
  - cbn [time with_cpl with_td]. rewrite time_fwd_loop. reflexivity.
  - rewrite time_bwd_loop. rewrite time_fold by (intros; reflexivity).
    cbn [time with_cpl with_td]. rewrite time_fwd_loop. reflexivity.
Qed.

Lemma time_update s : time (update s) = time s.
Proof.
  unfold Sim.update. rewrite time_update_pert. cbn [time product_check_state with_cd check_ready with_td].
  rewrite time_check_removing. cbn [time product_check_state with_cd].
  unfold check_finished. apply time_finish_loop.
Qed.

(* the fuel of [run] is never exhausted *)
Lemma run_trace : forall fuel s acc,
  o_max_time o < fuel + time s ->
  exists tr, trace_from s tr (fst (run c o fuel s acc)) /\ snd (run c o fuel s acc) = acc ++ tr.
Proof.
  induction fuel as [|f IH]; intros s acc Hf.
  - cbn [run].
    destruct (all_finished c (update s)) eqn:Ea.
    + eexists; split; [apply tr_success; exact Ea|reflexivity].
    + destruct (o_max_time o <=? time (update s)) eqn:Em.
      * eexists; split; [apply tr_failure; [exact Ea|apply Nat.leb_le; exact Em]|reflexivity].
      * apply Nat.leb_gt in Em. rewrite time_update in Em. lia.
  - cbn [run].
    destruct (all_finished c (update s)) eqn:Ea.
    + eexists; split; [apply tr_success; exact Ea|reflexivity].
    + destruct (o_max_time o <=? time (update s)) eqn:Em.
      * eexists; split; [apply tr_failure; [exact Ea|apply Nat.leb_le; exact Em]|reflexivity].
      * apply Nat.leb_gt in Em.
        set (s1 := update s). set (sa := step_allocate s1). set (sp := step_perform sa). set (sr := step_record sp).
        destruct (IH (with_time sr (S (time s1)))
                     ((acc ++ [(time s1, PUpdated, s1)]) ++
                      [(time s1, PAllocated, sa); (time s1, PPerformed, sp); (time s1, PRecorded, sr)]))
          as (tr & Htr & Hsnd).
        { cbn [time with_time]. unfold s1. rewrite time_update. lia. }
        eexists. split.
        -- apply tr_step; [exact Ea|exact Em|]. exact Htr.
        -- fold s1 sa sp sr. rewrite Hsnd. rewrite <- !app_assoc. reflexivity.
Qed.

Theorem simulate_trace s :
  exists tr, trace_from (initialize c o s) tr (fst (simulate c o s)) /\ snd (simulate c o s) = tr.
Proof.
  unfold simulate.
  destruct (run_trace (S (o_max_time o - time (initialize c o s))) (initialize c o s) []) as (tr & H1 & H2).
  { lia. }
  exists tr. split; [exact H1|exact H2].
Qed.

(* -------------------------------------------- phase-indexed invariants *)
Section Invariant.
  Variables Q0 QU QA QP QR : pstate -> Prop.
  Hypothesis H0U : forall s, Q0 s -> QU (update s).
  Hypothesis HUA : forall s, QU s -> QA (step_allocate s).
  Hypothesis HAP : forall s, QA s -> QP (step_perform s).
  Hypothesis HPR : forall s, QP s -> QR (step_record s).
  Hypothesis HR0 : forall s n, QR s -> Q0 (with_time s n).

  Definition Qof (ph : phase) : pstate -> Prop :=
    match ph with PUpdated => QU | PAllocated => QA | PPerformed => QP | PRecorded => QR end.

  Lemma trace_invariant s tr sf :
    trace_from s tr sf -> Q0 s ->
    Forall (fun ob : obs => Qof (snd (fst ob)) (snd ob)) tr /\ (exists su, QU su /\ exists x, sf = with_status su x).
  Proof.
    induction 1 as [s Ha|s Ha Hm|s rest sf Ha Hm s1 sa sp sr Hrest IH]; intros H0.
    - split; [constructor; [cbn; apply H0U; exact H0|constructor]|].
      exists (update s). split; [apply H0U; exact H0|eexists; reflexivity].
    - split; [constructor; [cbn; apply H0U; exact H0|constructor]|].
      exists (update s). split; [apply H0U; exact H0|eexists; reflexivity].
    - assert (HU : QU s1) by (apply H0U; exact H0).
      assert (HA : QA sa) by (apply HUA; exact HU).
      assert (HP : QP sp) by (apply HAP; exact HA).
      assert (HR : QR sr) by (apply HPR; exact HP).
      destruct (IH (HR0 _ _ HR)) as [IH1 IH2].
      split; [|exact IH2].
      repeat (constructor; [cbn; assumption|]). exact IH1.
  Qed.
End Invariant.

(* consecutive snapshots are related by the phase functions *)
Inductive consecutive : list obs -> Prop :=
| cons_nil : consecutive []
| cons_one x : consecutive [x]
| cons_UA k s l : consecutive ((k, PAllocated, step_allocate s) :: l) ->
                  consecutive ((k, PUpdated, s) :: (k, PAllocated, step_allocate s) :: l)
| cons_AP k s l : consecutive ((k, PPerformed, step_perform s) :: l) ->
                  consecutive ((k, PAllocated, s) :: (k, PPerformed, step_perform s) :: l)
| cons_PR k s l : consecutive ((k, PRecorded, step_record s) :: l) ->
                  consecutive ((k, PPerformed, s) :: (k, PRecorded, step_record s) :: l)
| cons_RU k s l : consecutive ((S k, PUpdated, update (with_time s (S k))) :: l) ->
                  consecutive ((k, PRecorded, s) :: (S k, PUpdated, update (with_time s (S k))) :: l).

Lemma trace_head s tr sf : trace_from s tr sf ->
  exists l, tr = (time (update s), PUpdated, update s) :: l.
Proof. induction 1; eexists; reflexivity. Qed.

Lemma trace_consecutive s tr sf : trace_from s tr sf -> consecutive tr.
Proof.
  induction 1 as [s Ha|s Ha Hm|s rest sf Ha Hm s1 sa sp sr Hrest IH].
  - constructor.
  - constructor.
  - apply cons_UA, cons_AP, cons_PR.
    destruct (trace_head _ _ _ Hrest) as (l & El). subst rest.
    rewrite time_update in *. cbn [time with_time] in *.
    apply cons_RU. exact IH.
Qed.

End Run.

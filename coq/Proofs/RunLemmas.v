(* The shape of every run: the observer trace of [simulate] is a sequence of
   blocks  updated / allocated / performed / recorded  produced by the four
   phase functions, ending with an `updated` snapshot; the fuel of [run] is
   never exhausted.  Generic induction principles for phase-indexed invariants. *)
From Coq Require Import List ZArith QArith Bool Arith Lia.
From PV Require Import Model.Types Model.Sim Proofs.Base Proofs.Frames Proofs.Proj.
Import ListNotations.
Open Scope nat_scope.

Section Run.
Variable c : cfg.
Variable o : opts.

Notation update := (update c o).
Notation step_allocate := (step_allocate c o).
Notation step_perform := (step_perform c o).
Notation step_record := (step_record c o).

(* [trace_from s tr sf]: starting the while loop in state s produces the
   snapshots tr and returns sf *)
Inductive trace_from : pstate -> list obs -> pstate -> Prop :=
| tr_success s :
    all_finished c (update s) = true ->
    trace_from s [(time (update s), PUpdated, update s)] (with_status (update s) StSuccess)
| tr_failure s :
    all_finished c (update s) = false ->
    o_max_time o <= time (update s) ->
    trace_from s [(time (update s), PUpdated, update s)] (with_status (update s) StFailure)
| tr_step s rest sf :
    all_finished c (update s) = false ->
    time (update s) < o_max_time o ->
    let s1 := update s in
    let sa := step_allocate s1 in
    let sp := step_perform sa in
    let sr := step_record sp in
    trace_from (with_time sr (S (time sr))) rest sf ->
    trace_from s ((time s1, PUpdated, s1) :: (time s1, PAllocated, sa) :: (time s1, PPerformed, sp)
                  :: (time s1, PRecorded, sr) :: rest) sf.

(* time bookkeeping: no phase writes project.time *)
Lemma time_update s : time (update s) = time s.
Proof. apply (pi_update c _ time); reflexivity. Qed.

Lemma time_step_allocate s : time (step_allocate s) = time s.
Proof.
  unfold Sim.step_allocate.
  set (w := negb (mem (time s) (o_abs o))).
  assert (H1 : time (absence_update c w s) = time s) by (apply (pi_absence_update c _ time); reflexivity).
  assert (H2 : time (if w then allocate c o (absence_update c w s) else absence_update c w s) = time s).
  { destruct w; [|exact H1]. rewrite <- H1. apply (pi_allocate c _ time); reflexivity. }
  destruct (w || o_auto_abs o); [|exact H2].
  rewrite <- H2. rewrite (pi_product_check_state c _ time) by reflexivity.
  apply (pi_check_working c _ time); reflexivity.
Qed.

Lemma time_step_perform s : time (step_perform s) = time s.
Proof.
  unfold Sim.step_perform. destruct (negb (mem (time s) (o_abs o))); [reflexivity|].
  destruct (o_auto_abs o); reflexivity.
Qed.

Lemma time_step_record s : time (step_record s) = time s.
Proof. reflexivity. Qed.

(* the fuel of [run] is never exhausted *)
Lemma run_trace : forall fuel s acc,
  o_max_time o < fuel + time s ->
  exists tr, trace_from s tr (fst (run c o fuel s acc)) /\ snd (run c o fuel s acc) = acc ++ tr.
Proof.
  induction fuel as [|f IH]; intros s acc Hf.
  - cbn [run].
    destruct (all_finished c (update s)) eqn:Ea.
    + eexists; split; [apply tr_success; exact Ea|reflexivity].
    + destruct (o_max_time o <=? time (update s)) eqn:Em.
      * eexists; split; [apply tr_failure; [exact Ea|apply Nat.leb_le; exact Em]|reflexivity].
      * apply Nat.leb_gt in Em. rewrite time_update in Em. lia.
  - cbn [run].
    destruct (all_finished c (update s)) eqn:Ea.
    + eexists; split; [apply tr_success; exact Ea|reflexivity].
    + destruct (o_max_time o <=? time (update s)) eqn:Em.
      * eexists; split; [apply tr_failure; [exact Ea|apply Nat.leb_le; exact Em]|reflexivity].
      * apply Nat.leb_gt in Em.
        set (s1 := update s). set (sa := step_allocate s1). set (sp := step_perform sa). set (sr := step_record sp).
        destruct (IH (with_time sr (S (time s1)))
                     ((acc ++ [(time s1, PUpdated, s1)]) ++
                      [(time s1, PAllocated, sa); (time s1, PPerformed, sp); (time s1, PRecorded, sr)]))
          as (tr & Htr & Hsnd).
        { cbn [time with_time]. unfold s1. rewrite time_update. lia. }
        assert (Et : time sr = time s1).
        { unfold sr, sp, sa. rewrite time_step_record, time_step_perform, time_step_allocate. reflexivity. }
        eexists. split.
        -- apply tr_step; [exact Ea|exact Em|]. fold s1 sa sp sr. rewrite Et. exact Htr.
        -- fold s1 sa sp sr. rewrite Hsnd. rewrite <- !app_assoc. reflexivity.
Qed.

Theorem simulate_trace s :
  exists tr, trace_from (initialize c o s) tr (fst (simulate c o s)) /\ snd (simulate c o s) = tr.
Proof.
  unfold simulate.
  destruct (run_trace (S (o_max_time o - time (initialize c o s))) (initialize c o s) []) as (tr & H1 & H2).
  { lia. }
  exists tr. split; [exact H1|exact H2].
Qed.

(* -------------------------------------------- phase-indexed invariants *)
Section Invariant.
  Variables Q0 QU QA QP QR : pstate -> Prop.
  Hypothesis H0U : forall s, Q0 s -> QU (update s).
  Hypothesis HUA : forall s, QU s -> QA (step_allocate s).
  Hypothesis HAP : forall s, QA s -> QP (step_perform s).
  Hypothesis HPR : forall s, QP s -> QR (step_record s).
  Hypothesis HR0 : forall s, QR s -> Q0 (with_time s (S (time s))).

  Definition Qof (ph : phase) : pstate -> Prop :=
    match ph with PUpdated => QU | PAllocated => QA | PPerformed => QP | PRecorded => QR end.

  Lemma trace_invariant s tr sf :
    trace_from s tr sf -> Q0 s ->
    Forall (fun ob : obs => Qof (snd (fst ob)) (snd ob)) tr /\ (exists su, QU su /\ exists x, sf = with_status su x).
  Proof.
    induction 1 as [s Ha|s Ha Hm|s rest sf Ha Hm s1 sa sp sr Hrest IH]; intros H0.
    - split; [constructor; [cbn; apply H0U; exact H0|constructor]|].
      exists (update s). split; [apply H0U; exact H0|eexists; reflexivity].
    - split; [constructor; [cbn; apply H0U; exact H0|constructor]|].
      exists (update s). split; [apply H0U; exact H0|eexists; reflexivity].
    - assert (HU : QU s1) by (apply H0U; exact H0).
      assert (HA : QA sa) by (apply HUA; exact HU).
      assert (HP : QP sp) by (apply HAP; exact HA).
      assert (HR : QR sr) by (apply HPR; exact HP).
      destruct (IH (HR0 _ HR)) as [IH1 IH2].
      split; [|exact IH2].
      repeat (constructor; [cbn; assumption|]). exact IH1.
  Qed.
End Invariant.

(* consecutive snapshots are related by the phase functions *)
Inductive consecutive : list obs -> Prop :=
| cons_nil : consecutive []
| cons_one x : consecutive [x]
| cons_UA k s l : consecutive ((k, PAllocated, step_allocate s) :: l) ->
                  consecutive ((k, PUpdated, s) :: (k, PAllocated, step_allocate s) :: l)
| cons_AP k s l : consecutive ((k, PPerformed, step_perform s) :: l) ->
                  consecutive ((k, PAllocated, s) :: (k, PPerformed, step_perform s) :: l)
| cons_PR k s l : consecutive ((k, PRecorded, step_record s) :: l) ->
                  consecutive ((k, PPerformed, s) :: (k, PRecorded, step_record s) :: l)
| cons_RU k s l : consecutive ((S k, PUpdated, update (with_time s (S k))) :: l) ->
                  consecutive ((k, PRecorded, s) :: (S k, PUpdated, update (with_time s (S k))) :: l).

Lemma trace_head s tr sf : trace_from s tr sf ->
  exists l, tr = (time (update s), PUpdated, update s) :: l.
Proof. induction 1; eexists; reflexivity. Qed.

Lemma trace_consecutive s tr sf : trace_from s tr sf -> consecutive tr.
Proof.
  induction 1 as [s Ha|s Ha Hm|s rest sf Ha Hm s1 sa sp sr Hrest IH].
  - constructor.
  - constructor.
  - apply cons_UA, cons_AP, cons_PR.
    destruct (trace_head _ _ _ Hrest) as (l & El). subst rest.
    assert (Et : time sr = time s1).
    { unfold sr, sp, sa. rewrite time_step_record, time_step_perform, time_step_allocate. reflexivity. }
    rewrite Et in *.
    rewrite time_update in *. cbn [time with_time] in *.
    apply cons_RU. exact IH.
Qed.

End Run.

(* Frames of the phase functions, stated for an arbitrary projection of the
   project state: a phase preserves every projection that is insensitive to
   the fields the phase writes. *)
From Coq Require Import List ZArith QArith Bool Arith Lia.
From PV Require Import Model.Types Model.Sim Proofs.Base.
Import ListNotations.
Open Scope nat_scope.

Section Proj.
Variable c : cfg.
Variable X : Type.
Variable pi : pstate -> X.

Hypothesis pi_td : forall s f, pi (with_td s f) = pi s.
Hypothesis pi_wd : forall s f, pi (with_wd s f) = pi s.
Hypothesis pi_fd : forall s f, pi (with_fd s f) = pi s.
Hypothesis pi_cd : forall s f, pi (with_cd s f) = pi s.
Hypothesis pi_wpc : forall s f, pi (with_wpc s f) = pi s.
Hypothesis pi_cpl : forall s q, pi (with_cpl s q) = pi s.

Lemma pi_fold {B} (f : pstate -> B -> pstate) l s :
  (forall x b, pi (f x b) = pi x) -> pi (fold_left f l s) = pi s.
Proof.
  intros H. revert s; induction l as [|b l IH]; intros s; simpl; [reflexivity|].
  rewrite IH. apply H.
Qed.

Lemma pi_fold_fst {B D} (f : pstate * D -> B -> pstate * D) l a :
  (forall x b, pi (fst (f x b)) = pi (fst x)) -> pi (fst (fold_left f l a)) = pi (fst a).
Proof.
  intros H. revert a; induction l as [|b l IH]; intros a; simpl; [reflexivity|].
  rewrite IH. apply H.
Qed.

(* ------------------------------------------------ check_finished: td wd fd *)
Lemma pi_finish_task s t : pi (finish_task c s t) = pi s.
Proof.
  unfold finish_task. destruct (t_needfac c t); repeat (rewrite ?pi_td, ?pi_wd, ?pi_fd); reflexivity.
Qed.

Lemma pi_finish_pass s : pi (fst (finish_pass c s)) = pi s.
Proof.
  unfold finish_pass. rewrite pi_fold_fst; [reflexivity|].
  intros [s' ch] t. cbn [fst]. destruct (finish_gate c s' t); cbn [fst]; [apply pi_finish_task|reflexivity].
Qed.

Lemma pi_finish_loop fuel : forall s, pi (finish_loop c fuel s) = pi s.
Proof.
  induction fuel as [|f IH]; intros s; simpl; [reflexivity|].
  destruct (finish_pass c s) as [s' ch] eqn:E.
  assert (H : pi s' = pi s) by (change s' with (fst (s', ch)); rewrite <- E; apply pi_finish_pass).
  destruct ch; [rewrite IH|]; exact H.
Qed.

Lemma pi_check_finished s : pi (check_finished c s) = pi s.
Proof. apply pi_finish_loop. Qed.

(* ------------------------------------------------------------ check_ready *)
Lemma pi_check_ready s : pi (check_ready c s) = pi s.
Proof. unfold check_ready. apply pi_td. Qed.

(* ------------------------------------------------------- components: cd wpc *)
Lemma pi_product_check_state s : pi (product_check_state c s) = pi s.
Proof. unfold product_check_state. apply pi_cd. Qed.

Lemma pi_detach_one s k : pi (detach_one s k) = pi s.
Proof. unfold detach_one. destruct (pw (cd s k)); [rewrite pi_cd, pi_wpc|]; reflexivity. Qed.
Lemma pi_detach_tree s k : pi (detach_tree c s k) = pi s.
Proof. unfold detach_tree. apply pi_fold. intros; apply pi_detach_one. Qed.
Lemma pi_check_removing cr s : pi (check_removing c cr s) = pi s.
Proof. unfold check_removing. apply pi_fold. intros; apply pi_detach_tree. Qed.
Lemma pi_attach_tree s p k : pi (attach_tree c s p k) = pi s.
Proof. unfold attach_tree. rewrite pi_wpc, pi_cd. reflexivity. Qed.

(* --------------------------------------------------------------- PERT: td cpl *)
Lemma pi_fwd_edge s src e : pi (fwd_edge s src e) = pi s.
Proof.
  unfold fwd_edge. destruct e as [n k]; cbn [fst snd]. destruct k; cbv zeta;
  match goal with |- pi (if ?b then _ else _) = _ => destruct b end; rewrite ?pi_td; reflexivity.
Qed.
Lemma pi_bwd_edge s src e : pi (bwd_edge s src e) = pi s.
Proof.
  unfold bwd_edge. destruct e as [n k]; cbn [fst snd]. destruct k; cbv zeta;
  match goal with |- pi (if ?b then _ else _) = _ => destruct b end; rewrite ?pi_td; reflexivity.
Qed.
Lemma pi_fwd_round s front : pi (fst (fwd_round c s front)) = pi s.
Proof.
  unfold fwd_round. rewrite pi_fold_fst; [reflexivity|].
  intros acc src. rewrite pi_fold_fst; [reflexivity|].
  intros a2 e. cbn [fst]. apply pi_fwd_edge.
Qed.
Lemma pi_bwd_round s front : pi (fst (bwd_round c s front)) = pi s.
Proof.
  unfold bwd_round. rewrite pi_fold_fst; [reflexivity|].
  intros acc src. rewrite pi_fold_fst; [reflexivity|].
  intros a2 e. cbn [fst]. apply pi_bwd_edge.
Qed.
Lemma pi_fwd_loop fuel : forall s front, pi (fwd_loop c fuel s front) = pi s.
Proof.
  induction fuel as [|f IH]; intros s front; simpl; [reflexivity|].
  destruct front; [reflexivity|]. destruct (fwd_round c s (n :: front)) as [s' nx] eqn:E.
  rewrite IH. change s' with (fst (s', nx)). rewrite <- E. apply pi_fwd_round.
Qed.
Lemma pi_bwd_loop fuel : forall s front, pi (bwd_loop c fuel s front) = pi s.
Proof.
  induction fuel as [|f IH]; intros s front; simpl; [reflexivity|].
  destruct front; [reflexivity|]. destruct (bwd_round c s (n :: front)) as [s' nx] eqn:E.
  rewrite IH. change s' with (fst (s', nx)). rewrite <- E. apply pi_bwd_round.
Qed.
Lemma pi_update_pert tm s : pi (update_pert c tm s) = pi s.
Proof.
  unfold update_pert, pert_backward, pert_forward.
  match goal with |- pi (match ?l with [] => _ | _ => _ end) = _ => destruct l end.
  - rewrite pi_cpl, pi_td, pi_fwd_loop, pi_td. reflexivity.
  - rewrite pi_bwd_loop. rewrite pi_fold by (intros; apply pi_td).
    rewrite pi_cpl, pi_td, pi_fwd_loop, pi_td. reflexivity.
Qed.

Lemma pi_update o s : pi (update c o s) = pi s.
Proof.
  unfold update. rewrite pi_update_pert, pi_product_check_state, pi_check_ready, pi_check_removing,
    pi_product_check_state, pi_check_finished. reflexivity.
Qed.

(* ------------------------------------------------------------ absence_update *)
Lemma pi_absence_update w s : pi (absence_update c w s) = pi s.
Proof. unfold absence_update. destruct w; rewrite pi_fd, pi_wd; reflexivity. Qed.

(* ------------------------------------------------------------------ allocate *)
Lemma pi_try_place s moved t k cands : pi (fst (try_place c s moved t k cands)) = pi s.
Proof.
  induction cands as [|p r IH]; cbn [try_place]; [reflexivity|].
  match goal with |- context [if ?b then _ else _] => destruct b end.
  - cbn [fst]. rewrite pi_attach_tree, pi_detach_tree. reflexivity.
  - exact IH.
Qed.
Lemma pi_place_for s moved t : pi (fst (place_for c s moved t)) = pi s.
Proof.
  unfold place_for. destruct (t_comp c t) as [k|]; [|reflexivity].
  destruct (comp_is_ready c s k && can_move c s moved k); [|reflexivity].
  apply pi_try_place.
Qed.
Lemma pi_do_alloc_w s t w : pi (do_alloc_w s t w) = pi s.
Proof. unfold do_alloc_w. rewrite pi_wd, pi_td. reflexivity. Qed.
Lemma pi_do_alloc_f s t f : pi (do_alloc_f s t f) = pi s.
Proof. unfold do_alloc_f. rewrite pi_fd, pi_td. reflexivity. Qed.
Lemma pi_alloc_workers s free t : pi (fst (alloc_workers c s free t)) = pi s.
Proof.
  unfold alloc_workers. rewrite pi_fold_fst; [reflexivity|].
  intros [s' fr] w. cbn [fst]. destruct (can_add c s' t w None); cbn [fst]; [apply pi_do_alloc_w|reflexivity].
Qed.
Lemma pi_alloc_with_facility s free t : pi (fst (alloc_with_facility c s free t)) = pi s.
Proof.
  unfold alloc_with_facility.
  destruct (t_comp c t) as [k|]; [|reflexivity].
  destruct (pw (cd s k)) as [p|]; [|reflexivity].
  rewrite pi_fold_fst; [reflexivity|].
  intros [s' fr] f. cbn [fst].
  destruct (sort_workers c (t_wrule c t) t (Some p) _) as [|w r]; cbn [fst]; [reflexivity|].
  rewrite pi_do_alloc_f, pi_do_alloc_w. reflexivity.
Qed.
Lemma pi_alloc_task acc t : pi (fst (fst (alloc_task c acc t))) = pi (fst (fst acc)).
Proof.
  destruct acc as [[s free] moved]. unfold alloc_task. cbn [fst].
  destruct (place_for c s moved t) as [s1 moved1] eqn:Ep.
  assert (H1 : pi s1 = pi s) by (change s1 with (fst (s1, moved1)); rewrite <- Ep; apply pi_place_for).
  destruct (t_auto c t); cbn [fst]; [exact H1|].
  destruct (t_needfac c t).
  - destruct (alloc_with_facility c s1 free t) as [s2 f2] eqn:E2. cbn [fst].
    rewrite <- H1. change s2 with (fst (s2, f2)). rewrite <- E2. apply pi_alloc_with_facility.
  - destruct (alloc_workers c s1 free t) as [s2 f2] eqn:E2. cbn [fst].
    rewrite <- H1. change s2 with (fst (s2, f2)). rewrite <- E2. apply pi_alloc_workers.
Qed.
Lemma pi_allocate o s : pi (allocate c o s) = pi s.
Proof.
  unfold allocate.
  match goal with |- pi (fst (fst (fold_left _ ?l ?a))) = _ =>
    assert (G : forall l' a', pi (fst (fst (fold_left (alloc_task c) l' a'))) = pi (fst (fst a'))) end.
  { induction l' as [|t l' IH]; intros a'; simpl; [reflexivity|]. rewrite IH. apply pi_alloc_task. }
  rewrite G. reflexivity.
Qed.

(* -------------------------------------------------------------- check_working *)
Lemma pi_cw_one s t : pi (cw_one c s t) = pi s.
Proof.
  unfold cw_one. destruct (is_ready (st (td s t))).
  - destruct (t_needfac c t); rewrite ?pi_fd, ?pi_wd, ?pi_td; reflexivity.
  - destruct (is_working (st (td s t))); [|reflexivity].
    destruct (t_needfac c t && negb match aw (td s t) with [] => true | _ :: _ => false end);
      rewrite ?pi_fd, ?pi_wd; reflexivity.
Qed.
Lemma pi_check_working s : pi (check_working c s) = pi s.
Proof. unfold check_working. apply pi_fold. intros; apply pi_cw_one. Qed.

Lemma pi_perform oa s : pi (perform c oa s) = pi s.
Proof. unfold perform. apply pi_td. Qed.

End Proj.

(* Proofs about Model/Gantt.v: the encoder loop computes exactly the maximal
   runs; the run-length decomposition is characterised independently. *)
From Coq Require Import List ZArith QArith Bool Lia.
From PV Require Import Model.Gantt.
Import ListNotations.
Open Scope Z_scope.

Section EncoderProof.
  Variable A : Type.
  Variable eqb : A -> A -> bool.
  Hypothesis eqb_spec : forall a b, eqb a b = true <-> a = b.
  Variable emit : A -> bool.
  Variable margin : Q.

  Notation acc := (acc A).
  Notation enc_step := (enc_step A eqb emit margin).
  Notation enc_loop := (enc_loop A eqb emit margin).
  Notation enc_finish := (enc_finish A emit margin).
  Notation encode := (encode A eqb emit margin).
  Notation groups_aux := (groups_aux A eqb).
  Notation groups_from := (groups_from A eqb).
  Notation groups := (groups A eqb).
  Notation runs_of := (runs_of A emit margin).
  Notation runs := (runs A eqb emit margin).

  Lemma eqb_refl a : eqb a a = true.
  Proof. apply eqb_spec; reflexivity. Qed.

  Lemma runs_of_cons g gs :
    runs_of (g :: gs) =
    (if emit (fst (fst g)) then [run_rec A margin g] else []) ++ runs_of gs.
  Proof. unfold Gantt.runs_of; cbn [filter]. destruct (emit (fst (fst g))); reflexivity. Qed.

  (* inside a run that has been opened (from_time set) *)
  Lemma enc_in_run :
    forall (r : list A) (cur : A) (start len : nat) (o : list (A * (Z * Q))) (t : Z),
      t = Z.of_nat (start + len) ->
      enc_finish (t + Z.of_nat (length r) - 1)
        (enc_loop t r (mkAcc (Some cur) (Z.of_nat start) (-1) o))
      = o ++ runs_of (groups_aux cur start len r).
  Proof.
    induction r as [|x r IH]; intros cur start len o t Ht.
    - cbn [enc_loop Gantt.enc_loop length Gantt.groups_aux].
      unfold Gantt.enc_finish; cbn [from_t to_t prev outs].
      replace (Z.of_nat start >? -1) with true by (symmetry; apply Z.gtb_lt; lia).
      rewrite Z.eqb_refl. cbn [andb]. rewrite runs_of_cons. cbn [fst].
      unfold emit_prev. destruct (emit cur); [|rewrite app_nil_r; reflexivity].
      unfold Gantt.runs_of; cbn [filter map app]. unfold run_rec.
      replace (t + Z.of_nat 0 - 1 - Z.of_nat start) with (Z.of_nat len - 1) by lia.
      reflexivity.
    - cbn [Gantt.enc_loop Gantt.groups_aux length].
      unfold Gantt.enc_step at 1; cbn [prev from_t to_t outs neq_prev].
      destruct (eqb x cur) eqn:E.
      + apply eqb_spec in E; subst x. cbn [negb].
        replace (t + Z.of_nat (S (length r)) - 1) with ((t + 1) + Z.of_nat (length r) - 1) by lia.
        apply IH. lia.
      + cbn [negb].
        replace (Z.of_nat start =? -1) with false by (symmetry; apply Z.eqb_neq; lia).
        rewrite Z.eqb_refl. cbv beta iota zeta.
        replace (t + Z.of_nat (S (length r)) - 1) with ((t + 1) + Z.of_nat (length r) - 1) by lia.
        subst t.
        rewrite (IH x (start + len)%nat 1%nat) by lia.
        rewrite runs_of_cons. cbn [fst]. unfold emit_prev.
        destruct (emit cur).
        * rewrite <- app_assoc. f_equal. cbn [app]. f_equal. unfold run_rec.
          replace (Z.of_nat (start + len) - 1 - Z.of_nat start) with (Z.of_nat len - 1) by lia.
          reflexivity.
        * reflexivity.
  Qed.

  (* before the first state different from the initial previous_state *)
  Lemma enc_before_first :
    forall (s0 : A), emit s0 = false ->
    forall (r : list A) (start len : nat) (t : Z),
      t = Z.of_nat (start + len) ->
      enc_finish (t + Z.of_nat (length r) - 1)
        (enc_loop t r (mkAcc (Some s0) (-1) (-1) []))
      = runs_of (groups_aux s0 start len r).
  Proof.
    intros s0 Hs0. induction r as [|x r IH]; intros start len t Ht.
    - cbn [Gantt.enc_loop Gantt.groups_aux]. rewrite runs_of_cons; cbn [fst]. rewrite Hs0.
      reflexivity.
    - cbn [Gantt.enc_loop Gantt.groups_aux length].
      unfold Gantt.enc_step at 1; cbn [prev from_t to_t outs neq_prev].
      replace (t + Z.of_nat (S (length r)) - 1) with ((t + 1) + Z.of_nat (length r) - 1) by lia.
      destruct (eqb x s0) eqn:E.
      + apply eqb_spec in E; subst x. cbn [negb]. apply IH. lia.
      + cbn [negb]. rewrite Z.eqb_refl. subst t.
        rewrite (enc_in_run r x (start + len)%nat 1%nat []) by lia.
        rewrite runs_of_cons; cbn [fst]. rewrite Hs0. reflexivity.
  Qed.

  Theorem encode_some_runs :
    forall s0 l, emit s0 = false -> encode (Some s0) l = runs l.
  Proof.
    intros s0 l Hs0. unfold Gantt.encode, Gantt.runs, Gantt.groups, Gantt.groups_from.
    destruct l as [|x r].
    - reflexivity.
    - cbn [Gantt.enc_loop length].
      unfold Gantt.enc_step at 1; cbn [prev from_t to_t outs neq_prev].
      replace (Z.of_nat (S (length r)) - 1) with ((0 + 1) + Z.of_nat (length r) - 1) by lia.
      destruct (eqb x s0) eqn:E.
      + apply eqb_spec in E; subst x. cbn [negb].
        apply (enc_before_first s0 Hs0 r 0%nat 1%nat). lia.
      + cbn [negb]. rewrite Z.eqb_refl.
        apply (enc_in_run r x 0%nat 1%nat []). lia.
  Qed.

  Theorem encode_none_runs : forall l, encode None l = runs l.
  Proof.
    intros l. unfold Gantt.encode, Gantt.runs, Gantt.groups, Gantt.groups_from.
    destruct l as [|x r].
    - reflexivity.
    - cbn [Gantt.enc_loop length].
      unfold Gantt.enc_step at 1; cbn [prev from_t to_t outs neq_prev]. rewrite Z.eqb_refl.
      replace (Z.of_nat (S (length r)) - 1) with ((0 + 1) + Z.of_nat (length r) - 1) by lia.
      apply (enc_in_run r x 0%nat 1%nat []). lia.
  Qed.

  (* ------------- the decomposition is "the maximal runs" ---------------- *)

  Definition expand (gs : list (A * nat * nat)) : list A :=
    flat_map (fun g => repeat (fst (fst g)) (snd g)) gs.

  Lemma groups_aux_expand cur start len l :
    expand (groups_aux cur start len l) = repeat cur len ++ l.
  Proof.
    revert cur start len; induction l as [|x r IH]; intros cur start len.
    - cbn. rewrite app_nil_r. reflexivity.
    - cbn [Gantt.groups_aux]. destruct (eqb x cur) eqn:E.
      + apply eqb_spec in E; subst x. rewrite IH.
        replace (repeat cur (S len)) with (repeat cur len ++ [cur]).
        * rewrite <- app_assoc. reflexivity.
        * clear. induction len as [|n IHn]; cbn; [reflexivity|]. f_equal. exact IHn.
      + cbn [expand flat_map fst snd]. fold (expand (groups_aux x (start + len) 1 r)).
        rewrite IH. reflexivity.
  Qed.

  (* (G1) concatenating the runs gives back the log *)
  Theorem groups_expand l : expand (groups l) = l.
  Proof.
    destruct l as [|x r]; [reflexivity|].
    unfold Gantt.groups, Gantt.groups_from. rewrite groups_aux_expand. reflexivity.
  Qed.

  (* (G2)-(G4): runs are non-empty, contiguous, and neighbours differ *)
  Fixpoint well_formed (next : nat) (prev_state : option A) (gs : list (A * nat * nat)) : Prop :=
    match gs with
    | [] => True
    | (s, start, len) :: r =>
        start = next /\ (1 <= len)%nat /\
        (match prev_state with Some p => eqb s p = false | None => True end) /\
        well_formed (start + len) (Some s) r
    end.

  Lemma groups_aux_wf cur start len l p :
    (1 <= len)%nat ->
    (match p with Some q => eqb cur q = false | None => True end) ->
    well_formed start p (groups_aux cur start len l).
  Proof.
    revert cur start len p; induction l as [|x r IH]; intros cur start len p Hl Hp.
    - cbn. split; [reflexivity|]. split; [exact Hl|]. split; [exact Hp|exact I].
    - cbn [Gantt.groups_aux]. destruct (eqb x cur) eqn:E.
      + apply IH; [lia|exact Hp].
      + cbn [well_formed]. split; [reflexivity|]. split; [exact Hl|]. split; [exact Hp|].
        apply IH; [lia|exact E].
  Qed.

  Theorem groups_wf l : well_formed 0 None (groups l).
  Proof.
    destruct l as [|x r]; [exact I|].
    unfold Gantt.groups, Gantt.groups_from. apply groups_aux_wf; [lia|exact I].
  Qed.
End EncoderProof.

(* --------------------------- concrete encoders -------------------------- *)

Lemma tstate_eqb_spec a b : tstate_eqb a b = true <-> a = b.
Proof. destruct a, b; cbn; split; intro H; try reflexivity; discriminate. Qed.
Lemma cstate_eqb_spec a b : cstate_eqb a b = true <-> a = b.
Proof. destruct a, b; cbn; split; intro H; try reflexivity; discriminate. Qed.
Lemma rstate_eqb_spec a b : rstate_eqb a b = true <-> a = b.
Proof. destruct a, b; cbn; split; intro H; try reflexivity; discriminate. Qed.

(* the list of (start, length - 1 + margin) of the maximal runs of state s *)
Definition runs_state {A} (eqb : A -> A -> bool) (s : A) (l : list A) (m : Q) : list (Z * Q) :=
  map (fun g => (Z.of_nat (snd (fst g)), inject_Z (Z.of_nat (snd g) - 1) + m)%Q)
      (filter (fun g => eqb (fst (fst g)) s) (groups A eqb l)).

Lemma proj_runs A (eqb : A -> A -> bool) (emit : A -> bool) (m : Q) (s : A) (l : list A) :
  (forall a b, eqb a b = true <-> a = b) ->
  emit s = true ->
  proj A eqb s (runs A eqb emit m l) = runs_state eqb s l m.
Proof.
  intros Hspec Hs. unfold proj, runs, runs_of, runs_state.
  induction (groups A eqb l) as [|g gs IH]; [reflexivity|].
  cbn [filter]. destruct g as [[st start] len]. cbn [fst snd].
  destruct (eqb st s) eqn:E.
  - apply Hspec in E; subst st. rewrite Hs. cbn [map filter fst snd run_rec].
    rewrite (proj2 (Hspec s s) eq_refl). cbn [map snd]. f_equal. exact IH.
  - destruct (emit st); [|exact IH].
    cbn [map filter fst snd run_rec]. rewrite E. exact IH.
Qed.

Theorem gantt_task_is_rle l m :
  gantt_task l m = (runs_state tstate_eqb TReady l m, runs_state tstate_eqb TWorking l m).
Proof.
  unfold gantt_task.
  rewrite (encode_some_runs _ _ tstate_eqb_spec t_emit m TNone l eq_refl).
  rewrite !(proj_runs _ tstate_eqb t_emit m _ l tstate_eqb_spec) by reflexivity.
  reflexivity.
Qed.

Theorem gantt_component_is_rle l m :
  gantt_component l m = (runs_state cstate_eqb CReady l m, runs_state cstate_eqb CWorking l m).
Proof.
  unfold gantt_component.
  rewrite (encode_some_runs _ _ cstate_eqb_spec c_emit m CNone l eq_refl).
  rewrite !(proj_runs _ cstate_eqb c_emit m _ l cstate_eqb_spec) by reflexivity.
  reflexivity.
Qed.

Theorem gantt_resource_is_rle l m :
  gantt_resource l m =
  (runs_state rstate_eqb RFree l m, runs_state rstate_eqb RWorking l m,
   runs_state rstate_eqb RAbsence l m).
Proof.
  unfold gantt_resource.
  rewrite (encode_none_runs _ _ rstate_eqb_spec r_emit m l).
  rewrite !(proj_runs _ rstate_eqb r_emit m _ l rstate_eqb_spec) by reflexivity.
  reflexivity.
Qed.

(* ------------------------------ extract -------------------------------- *)

Lemma all_at_spec A (eqb : A -> A -> bool) (Hspec : forall a b, eqb a b = true <-> a = b)
      (log : list A) (target : A) (times : list nat) :
  all_at A eqb log target times = true <->
  (forall t, In t times -> (t < length log)%nat /\ nth_error log t = Some target).
Proof.
  induction times as [|t r IH]; cbn [all_at].
  - split; [intros _ t []|reflexivity].
  - destruct (nth_error log t) as [s|] eqn:E.
    + destruct (eqb s target) eqn:Es.
      * apply Hspec in Es; subst s. rewrite IH. split.
        -- intros H t' [<-|Hin]; [|apply H; exact Hin].
           split; [apply nth_error_Some; congruence|exact E].
        -- intros H t' Hin. apply H. right; exact Hin.
      * split; [discriminate|]. intros H.
        destruct (H t (or_introl eq_refl)) as [_ H2]. rewrite E in H2.
        injection H2 as ->. rewrite (proj2 (Hspec target target) eq_refl) in Es. discriminate.
    + split; [discriminate|]. intros H.
      destruct (H t (or_introl eq_refl)) as [_ H2]. rewrite E in H2. discriminate.
Qed.

Lemma extract_from_spec A (eqb : A -> A -> bool) (logs : list (list A)) target times :
  forall i k,
    In k (extract_from A eqb i logs target times) <->
    (exists j lg, k = (i + j)%nat /\ nth_error logs j = Some lg /\ all_at A eqb lg target times = true).
Proof.
  induction logs as [|lg r IH]; intros i k; cbn [extract_from].
  - split; [intros []|]. intros (j & lg & _ & H & _). destruct j; discriminate.
  - destruct (all_at A eqb lg target times) eqn:E.
    + cbn [In]. rewrite IH. split.
      * intros [<-|(j & lg' & -> & Hn & Ha)].
        -- exists 0%nat, lg. repeat split; auto; lia.
        -- exists (S j), lg'. repeat split; auto; lia.
      * intros (j & lg' & -> & Hn & Ha). destruct j as [|j].
        -- left; lia.
        -- right. exists j, lg'. repeat split; auto; lia.
    + rewrite IH. split.
      * intros (j & lg' & -> & Hn & Ha). exists (S j), lg'. repeat split; auto; lia.
      * intros (j & lg' & -> & Hn & Ha). destruct j as [|j].
        -- cbn in Hn. injection Hn as <-. congruence.
        -- exists j, lg'. repeat split; auto; lia.
Qed.

(* extract returns exactly the objects whose log shows [target] at all the
   requested times (each time being inside the log) *)
Theorem extract_spec A (eqb : A -> A -> bool) (Hspec : forall a b, eqb a b = true <-> a = b)
        (logs : list (list A)) target times k :
  In k (extract A eqb logs target times) <->
  (exists lg, nth_error logs k = Some lg /\
              forall t, In t times -> (t < length lg)%nat /\ nth_error lg t = Some target).
Proof.
  unfold extract. rewrite extract_from_spec. split.
  - intros (j & lg & -> & Hn & Ha). exists lg. split; [exact Hn|].
    apply (all_at_spec A eqb Hspec). exact Ha.
  - intros (lg & Hn & H). exists k, lg. repeat split; auto.
    apply (all_at_spec A eqb Hspec). exact H.
Qed.

Lemma extract_from_sorted A eqb logs target times :
  forall i, (forall k, In k (extract_from A eqb i logs target times) -> (i <= k)%nat) /\
            NoDup (extract_from A eqb i logs target times).
Proof.
  induction logs as [|lg r IH]; intros i; cbn [extract_from].
  - split; [intros k []|constructor].
  - destruct (IH (S i)) as [Hle Hnd].
    destruct (all_at A eqb lg target times).
    + split.
      * intros k [<-|Hin]; [lia|]. specialize (Hle k Hin). lia.
      * constructor; [|exact Hnd]. intro Hin. specialize (Hle i Hin). lia.
    + split; [|exact Hnd]. intros k Hin. specialize (Hle k Hin). lia.
Qed.

(* ------------------------------- dates --------------------------------- *)

(* index k of a chart row maps to init + k * unit *)
Theorem row_start_spec init unit_s k : row_start init unit_s k = init + k * unit_s.
Proof. reflexivity. Qed.

(* set_last_datetime: the last simulated step (index time-1) falls on [last] *)
Theorem set_last_datetime_spec last unit_s time :
  row_start (set_last_datetime last unit_s time) unit_s (time - 1) = last.
Proof. unfold row_start, set_last_datetime. lia. Qed.

(* whole-step margins: the finish date is the start date of index from+len *)
Lemma qfloor_inject z : qfloor (inject_Z z) = z.
Proof. unfold qfloor, inject_Z; cbn. apply Z.div_1_r. Qed.

Theorem row_finish_integral init unit_s from (n : Z) :
  row_finish init unit_s from (inject_Z n) = row_start init unit_s (from + n).
Proof.
  unfold row_finish, row_start.
  assert (H : (inject_Z init + (inject_Z from + inject_Z n) * inject_Z unit_s ==
               inject_Z (init + (from + n) * unit_s))%Q).
  { rewrite !inject_Z_plus, inject_Z_mult, inject_Z_plus. reflexivity. }
  unfold qfloor. unfold Qeq in H. cbn [Qnum Qden inject_Z] in H.
  rewrite Z.mul_1_r in H. rewrite H.
  rewrite Z.div_mul by discriminate. reflexivity.
Qed.

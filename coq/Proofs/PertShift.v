(* On a finish-to-start DAG the critical-path values computed at two
   different times from states with the same remaining work differ by the
   difference of the two times: ES, EF, LS, LF and CPL all shift by d.  Hence
   slack (LS - ES) is the same and ES is shifted uniformly, so the TSLACK and
   EST priority rules order every list of tasks the same way.  For C10 (f). *)
From Coq Require Import List ZArith QArith Bool Arith Lia Lqa Permutation.
From PV Require Import Model.Types Model.Sim Proofs.Base Proofs.SortProof Proofs.C12Proof Proofs.C12Run Proofs.KeyCong.
Import ListNotations.
Open Scope nat_scope.

Section SortExt.
Variable A : Type.
Lemma insert_ext_in (le1 le2 : A -> A -> bool) x l : (forall y, In y l -> le1 y x = le2 y x) ->
  insert_sorted A le1 x l = insert_sorted A le2 x l.
Proof.
  induction l as [|y l IH]; intros H; cbn [insert_sorted]; [reflexivity|].
  rewrite (H y (or_introl eq_refl)). destruct (le2 y x); [|reflexivity].
  f_equal. apply IH. intros z Hz. apply H. right. exact Hz.
Qed.

Lemma fold_insert_ext_in (le1 le2 : A -> A -> bool) l : forall acc,
  (forall a b, In a (l ++ acc) -> In b (l ++ acc) -> le1 a b = le2 a b) ->
  fold_left (fun a x => insert_sorted A le1 x a) l acc = fold_left (fun a x => insert_sorted A le2 x a) l acc.
Proof.
  induction l as [|x l IH]; intros acc H; cbn [fold_left]; [reflexivity|].
  rewrite (insert_ext_in le1 le2 x acc).
  - apply IH. intros a b Ha Hb. apply H.
    + apply in_app_or in Ha. destruct Ha as [Ha|Ha]; [right; apply in_or_app; left; exact Ha|].
      apply (Permutation_in _ (insert_perm A le2 x acc)) in Ha. destruct Ha as [<-|Ha]; [left; reflexivity|right; apply in_or_app; right; exact Ha].
    + apply in_app_or in Hb. destruct Hb as [Hb|Hb]; [right; apply in_or_app; left; exact Hb|].
      apply (Permutation_in _ (insert_perm A le2 x acc)) in Hb. destruct Hb as [<-|Hb]; [left; reflexivity|right; apply in_or_app; right; exact Hb].
  - intros y Hy. apply H; [right; apply in_or_app; right; exact Hy|left; reflexivity].
Qed.

Lemma stable_sort_ext_in (le1 le2 : A -> A -> bool) l :
  (forall a b, In a l -> In b l -> le1 a b = le2 a b) -> stable_sort A le1 l = stable_sort A le2 l.
Proof. intros H. unfold stable_sort. apply fold_insert_ext_in. rewrite app_nil_r. exact H. Qed.
End SortExt.

Lemma Qleb_shift a b a' b' d : (a == a' + d)%Q -> (b == b' + d)%Q -> Qleb a b = Qleb a' b'.
Proof.
  intros Ha Hb. unfold Qleb.
  destruct (Qle_bool a b) eqn:E1; destruct (Qle_bool a' b') eqn:E2; try reflexivity; exfalso.
  - apply Qle_bool_iff in E1. assert (H : (a' <= b')%Q) by lra. apply Qle_bool_iff in H. congruence.
  - apply Qle_bool_iff in E2. assert (H : (a <= b)%Q) by lra. apply Qle_bool_iff in H. congruence.
Qed.

Section Shift.
Variable c : cfg.
Variable rank : nat -> nat.
Hypothesis DAG : fs_dag c rank.
Variables a b : pstate.
Variables ta tb : Q.
Hypothesis HA : PertOK c ta a.
Hypothesis HB : PertOK c tb b.
Hypothesis Hrem : forall v, rem (td a v) = rem (td b v).

Let d : Q := (ta - tb)%Q.

Lemma in_rank v u : In (u, FS) (t_inputs c v) -> rank u < rank v /\ u < nT c.
Proof.
  intros H. split.
  - apply (fd_mirror c rank DAG) in H. apply (fd_rank c rank DAG u (v, FS) H).
  - apply (fd_range_in c rank DAG v (u, FS) H).
Qed.
Lemma out_rank v o : v < nT c -> In (o, FS) (t_outputs c v) -> rank v < rank o /\ o < nT c /\ rank o < nT c.
Proof.
  intros Hv H. split; [apply (fd_rank c rank DAG v (o, FS) H)|].
  pose proof (fd_range_out c rank DAG v (o, FS) H) as Ho. cbn in Ho. split; [exact Ho|apply (fd_rank_bound c rank DAG o Ho)].
Qed.

Lemma forward_shift : forall n v, rank v < n -> v < nT c ->
  (est (td a v) == est (td b v) + d)%Q /\ (eft (td a v) == eft (td b v) + d)%Q.
Proof.
  destruct HA as (A1 & A2 & A3 & A4 & _). destruct HB as (B1 & B2 & B3 & B4 & _).
  induction n as [|n IH]; intros v Hr Hv; [lia|].
  assert (Es : (est (td a v) == est (td b v) + d)%Q).
  { destruct (t_inputs c v) eqn:Ein.
    - rewrite (A2 v Hv Ein), (B2 v Hv Ein). unfold d. ring.
    - assert (Hne : t_inputs c v <> []) by (rewrite Ein; discriminate).
      destruct (A4 v Hv Hne) as (ua & Hua & Ea). destruct (B4 v Hv Hne) as (ub & Hub & Eb).
      destruct (in_rank v ua Hua) as [Ra Na]. destruct (in_rank v ub Hub) as [Rb Nb].
      destruct (IH ua ltac:(lia) Na) as [_ Fa]. destruct (IH ub ltac:(lia) Nb) as [_ Fb].
      pose proof (A3 v ub Hv Hub) as La. pose proof (B3 v ua Hv Hua) as Lb. lra. }
  split; [exact Es|].
  destruct (A1 v Hv) as [Fa _]. destruct (B1 v Hv) as [Fb _]. rewrite Fa, Fb, Es, (Hrem v). ring.
Qed.

Lemma est_shift v : v < nT c -> (est (td a v) == est (td b v) + d)%Q.
Proof. intros Hv. apply (forward_shift (S (rank v)) v); [lia|exact Hv]. Qed.
Lemma eft_shift v : v < nT c -> (eft (td a v) == eft (td b v) + d)%Q.
Proof. intros Hv. apply (forward_shift (S (rank v)) v); [lia|exact Hv]. Qed.

Lemma cpl_shift : (cpl a == cpl b + d)%Q.
Proof.
  destruct HA as (_ & _ & _ & _ & A5 & (xa & Nxa & _ & Exa) & _). destruct HB as (_ & _ & _ & _ & B5 & (xb & Nxb & _ & Exb) & _).
  pose proof (eft_shift xa Nxa). pose proof (eft_shift xb Nxb). pose proof (A5 xb Nxb). pose proof (B5 xa Nxa). lra.
Qed.

Lemma backward_shift : forall n v, nT c - rank v < n -> v < nT c ->
  (lst (td a v) == lst (td b v) + d)%Q /\ (lft (td a v) == lft (td b v) + d)%Q.
Proof.
  pose proof cpl_shift as Hc.
  destruct HA as (_ & _ & _ & _ & _ & _ & A7 & A8 & A9 & A10). destruct HB as (_ & _ & _ & _ & _ & _ & B7 & B8 & B9 & B10).
  induction n as [|n IH]; intros v Hr Hv; [lia|].
  assert (Ef : (lft (td a v) == lft (td b v) + d)%Q).
  { destruct (t_outputs c v) eqn:Eout.
    - rewrite (A8 v Hv Eout), (B8 v Hv Eout). exact Hc.
    - assert (Hne : t_outputs c v <> []) by (rewrite Eout; discriminate).
      destruct (A10 v Hv Hne) as (oa & Hoa & Ea). destruct (B10 v Hv Hne) as (ob & Hob & Eb).
      destruct (out_rank v oa Hv Hoa) as (Ra & Na & Ba). destruct (out_rank v ob Hv Hob) as (Rb & Nb & Bb).
      destruct (IH oa ltac:(lia) Na) as [Sa _]. destruct (IH ob ltac:(lia) Nb) as [Sb _].
      pose proof (A9 v ob Hv Hob) as La. pose proof (B9 v oa Hv Hoa) as Lb. lra. }
  split; [|exact Ef].
  destruct (A7 v Hv) as [Sa _]. destruct (B7 v Hv) as [Sb _]. rewrite Sa, Sb, Ef, (Hrem v). ring.
Qed.

Lemma lst_shift v : v < nT c -> (lst (td a v) == lst (td b v) + d)%Q.
Proof.
  intros Hv. pose proof (fd_rank_bound c rank DAG v Hv).
  apply (backward_shift (S (nT c - rank v)) v); [lia|exact Hv].
Qed.

(* TSLACK and EST order every list of tasks the same way in the two states *)
Theorem SortAgree_pert rule : (rule = 0 \/ rule = 1)%Z -> SortAgree c rule a b.
Proof.
  intros Hr l Hl. unfold sort_tasks, sort_by. apply stable_sort_ext_in. intros x y Hx Hy.
  pose proof (est_shift x (Hl x Hx)) as Ex. pose proof (est_shift y (Hl y Hy)) as Ey.
  pose proof (lst_shift x (Hl x Hx)) as Lx. pose proof (lst_shift y (Hl y Hy)) as Ly.
  destruct Hr as [-> | ->]; cbn [task_key].
  - apply (Qleb_shift _ _ _ _ 0%Q); lra.
  - apply (Qleb_shift _ _ _ _ d); assumption.
Qed.

End Shift.

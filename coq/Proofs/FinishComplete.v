(* check_finished reaches a fixpoint: after it, no WORKING task with no
   remaining work has an open finish gate.  (C02 "at the first step after",
   C06 d.)  The fuel S nT of the model's loop always suffices. *)
From Coq Require Import List ZArith QArith Bool Arith Lia.
From PV Require Import Model.Types Model.Sim Proofs.Base Proofs.Frames Proofs.RunLemmas Proofs.C01Proof Proofs.C02Proof.
Import ListNotations.
Open Scope nat_scope.

Section FinishComplete.
Variable c : cfg.

Definition unfin (s : pstate) (t : nat) : bool := negb (is_fin (stof s t)).
Definition m (s : pstate) : nat := length (filter (unfin s) (tasks c)).

Lemma filter_le {A} (p q : A -> bool) l : (forall x, q x = true -> p x = true) ->
  length (filter q l) <= length (filter p l).
Proof.
  intros H. induction l as [|x l IH]; cbn; [lia|].
  destruct (q x) eqn:Eq.
  - rewrite (H x Eq). cbn. lia.
  - destruct (p x); cbn; lia.
Qed.

Lemma filter_lt {A} (p q : A -> bool) l t : (forall x, q x = true -> p x = true) ->
  In t l -> p t = true -> q t = false -> length (filter q l) < length (filter p l).
Proof.
  intros H Hin Hp Hq. induction l as [|x l IH]; [contradiction|].
  cbn. destruct Hin as [->|Hin].
  - rewrite Hp, Hq. cbn. pose proof (filter_le p q l H). lia.
  - specialize (IH Hin). destruct (q x) eqn:Eq.
    + rewrite (H x Eq). cbn. lia.
    + destruct (p x); cbn; lia.
Qed.

Lemma m_finish_le s t : m (finish_task c s t) <= m s.
Proof.
  unfold m. apply filter_le. intros x. unfold unfin. rewrite stof_finish_task.
  destruct (Nat.eqb x t); [discriminate|exact (fun h => h)].
Qed.

Lemma m_finish_lt s t : In t (tasks c) -> stof s t <> TFinished -> m (finish_task c s t) < m s.
Proof.
  intros Hin Hn. unfold m. apply (filter_lt _ _ _ t); [|exact Hin| |].
  - intros x. unfold unfin. rewrite stof_finish_task. destruct (Nat.eqb x t); [discriminate|exact (fun h => h)].
  - unfold unfin. destruct (stof s t); try reflexivity. congruence.
  - unfold unfin. rewrite stof_finish_task, Nat.eqb_refl. reflexivity.
Qed.

Definition pass_body (acc : pstate * bool) (t : nat) : pstate * bool :=
  let (s', ch) := acc in if finish_gate c s' t then (finish_task c s' t, true) else (s', ch).

Lemma finish_pass_unfold s : finish_pass c s = fold_left pass_body (filter (zero_work s) (tasks c)) (s, false).
Proof. reflexivity. Qed.

(* a pass that reports "no change" changed nothing and saw only closed gates *)
Lemma pass_nochange_aux l : forall acc,
  snd (fold_left pass_body l acc) = false ->
  fold_left pass_body l acc = acc /\ (forall t, In t l -> finish_gate c (fst acc) t = false).
Proof.
  induction l as [|t l IH]; intros [s' ch] H; cbn [fold_left] in *; [split; [reflexivity|intros t []]|].
  unfold pass_body at 2 in H. unfold pass_body at 2.
  destruct (finish_gate c s' t) eqn:Eg.
  - (* ch becomes true and stays true *)
    exfalso.
    assert (G : forall l' a, snd a = true -> snd (fold_left pass_body l' a) = true).
    { induction l' as [|y l' IH']; intros a Ha; cbn [fold_left]; [exact Ha|]. apply IH'.
      destruct a as [sa cha]. unfold pass_body. cbn [snd] in Ha. subst cha. destruct (finish_gate c sa y); reflexivity. }
    rewrite (G l (finish_task c s' t, true) eq_refl) in H. discriminate.
  - destruct (IH (s', ch) H) as [E1 E2]. split; [exact E1|].
    intros x [<-|Hx]; [exact Eg|apply E2; exact Hx].
Qed.

Lemma pass_nochange s : snd (finish_pass c s) = false ->
  fst (finish_pass c s) = s /\ (forall t, t < nT c -> zero_work s t = true -> finish_gate c s t = false).
Proof.
  rewrite finish_pass_unfold. intros H. destruct (pass_nochange_aux _ _ H) as [E1 E2].
  rewrite E1. split; [reflexivity|]. intros t Ht Hz. apply (E2 t).
  apply filter_In. split; [apply in_seq; lia|exact Hz].
Qed.

(* a pass that reports a change finished at least one unfinished task *)
Lemma pass_change_aux s l : (forall t, In t l -> In t (tasks c) /\ stof s t = TWorking) ->
  forall acc,
    (m (fst acc) <= m s /\ ((forall x, stof (fst acc) x = stof s x) \/ m (fst acc) < m s)
     /\ (snd acc = true -> m (fst acc) < m s)) ->
    let r := fold_left pass_body l acc in
    m (fst r) <= m s /\ ((forall x, stof (fst r) x = stof s x) \/ m (fst r) < m s) /\ (snd r = true -> m (fst r) < m s).
Proof.
  induction l as [|t l IH]; intros Hl acc H; cbn [fold_left]; [exact H|].
  apply IH; [intros x Hx; apply Hl; right; exact Hx|].
  destruct acc as [s' ch]. cbn [fst snd] in *. destruct H as (H1 & H2 & H3).
  unfold pass_body. destruct (finish_gate c s' t) eqn:Eg; cbn [fst snd]; [|repeat split; assumption].
  destruct (Hl t (or_introl eq_refl)) as [Hin Hw].
  assert (Hlt : m (finish_task c s' t) < m s).
  { destruct H2 as [Heq|Hlt].
    - pose proof (m_finish_lt s' t Hin) as L. rewrite Heq, Hw in L. specialize (L ltac:(discriminate)). lia.
    - pose proof (m_finish_le s' t). lia. }
  repeat split; [lia|right; exact Hlt|intros _; exact Hlt].
Qed.

Lemma pass_change s : snd (finish_pass c s) = true -> m (fst (finish_pass c s)) < m s.
Proof.
  rewrite finish_pass_unfold. intros H.
  apply (pass_change_aux s (filter (zero_work s) (tasks c))); [| |exact H].
  - intros t Hin. apply filter_In in Hin. destruct Hin as [Hin Hz]. split; [exact Hin|].
    unfold zero_work in Hz. apply andb_true_iff in Hz. destruct Hz as [Hz _]. apply is_working_true in Hz. exact Hz.
  - cbn [fst snd]. repeat split; [lia|left; reflexivity|discriminate].
Qed.

Definition Complete (s : pstate) : Prop :=
  forall t, t < nT c -> stof s t = TWorking -> Qltb (remof s t) tol = true -> finish_gate c s t = false.

Lemma loop_complete : forall fuel s, m s < fuel -> Complete (finish_loop c fuel s).
Proof.
  induction fuel as [|f IH]; intros s Hm; [lia|].
  cbn [finish_loop]. destruct (finish_pass c s) as [s' ch] eqn:E. destruct ch.
  - apply IH. pose proof (pass_change s) as L. rewrite E in L. cbn [fst snd] in L. specialize (L eq_refl). lia.
  - pose proof (pass_nochange s) as L. rewrite E in L. cbn [fst snd] in L. destruct (L eq_refl) as [-> G].
    intros t Ht Hw Hz. apply G; [exact Ht|]. unfold zero_work. fold (stof s t) (remof s t).
    rewrite Hw. cbn [is_working andb]. exact Hz.
Qed.

Theorem check_finished_complete s : Complete (check_finished c s).
Proof.
  apply loop_complete. unfold m, tasks.
  assert (L : forall (p : nat -> bool) l, length (filter p l) <= length l).
  { intros p l. induction l as [|y l IH]; cbn; [lia|]. destruct (p y); cbn; lia. }
  pose proof (L (unfin s) (seq 0 (nT c))) as L'. rewrite seq_length in L'. lia.
Qed.

(* the same after the whole of __update *)
Theorem update_finish_complete o s : Complete (update c o s).
Proof.
  intros t Ht Hw Hz.
  set (x := check_finished c s).
  assert (Est : forall y, stof (update c o s) y = stof x y \/ (stof x y = TNone /\ stof (update c o s) y = TReady)).
  { intros y. unfold update. fold x.
    set (s4 := check_ready c (check_removing c (o_crank o) (product_check_state c x))).
    assert (E1 : stof (update_pert c (time (product_check_state c s4)) (product_check_state c s4)) y = stof s4 y).
    { unfold stof. destruct (keeps_update_pert c (time (product_check_state c s4)) (product_check_state c s4) y) as (E & _). exact E. }
    rewrite E1. unfold s4. rewrite stof_check_ready.
    assert (E3 : forall z, stof (check_removing c (o_crank o) (product_check_state c x)) z = stof x z)
      by (intros z; unfold stof; rewrite td_check_removing; reflexivity).
    rewrite !E3.
    match goal with |- context [if ?b then _ else _] => destruct b eqn:Eb end; [right|left; reflexivity].
    apply andb_true_iff in Eb. destruct Eb as [Eb _]. apply andb_true_iff in Eb. destruct Eb as [_ Eb].
    apply is_none_true in Eb. split; [exact Eb|reflexivity]. }
  assert (Ew : stof x t = TWorking) by (destruct (Est t) as [E|[_ E]]; congruence).
  assert (Er : remof x t = remof (update c o s) t) by (symmetry; apply rem_update).
  pose proof (check_finished_complete s t Ht Ew) as G. fold x in G. rewrite Er in G. specialize (G Hz).
  (* the finish gate only reads FINISHED / started, which NONE -> READY does not change *)
  rewrite <- G. unfold finish_gate. apply forallb_ext'. intros [p k]. cbn [fst snd].
  fold (stof (update c o s) p) (stof x p).
  destruct (Est p) as [E|[E1 E2]]; [rewrite E; reflexivity|rewrite E1, E2; destruct k; reflexivity].
Qed.

End FinishComplete.

(* C10 (f), final form: remove_absence_time_list applied to the result of the
   run with absence list L gives the result of the run without absence
   (PERT-free priority rules, no individual absences, auto-task flag off). *)
From Coq Require Import List ZArith QArith Bool Arith Lia.
From PV Require Import Model.Types Model.Sim Model.LogEdit Proofs.Base Proofs.Frames Proofs.Proj Proofs.RunLemmas
  Proofs.LogsProof Proofs.C13Proof Proofs.C13Run Proofs.C15Proof Proofs.C18Proof Proofs.C03Res Proofs.C12Proof Proofs.C12Run Proofs.KeyCong Proofs.KeepList Proofs.PertShift Proofs.PertEst Proofs.C10Del Proofs.C10Auto.
Import ListNotations.
Open Scope nat_scope.

(* the record-level removals are the list-level removal on every field *)
Lemma task_remove_split steps : forall g n, tlog_len n g ->
  task_remove steps g = mkTLog (rem_seq steps (l_st g)) (rem_seq steps (l_rem g)) (rem_seq steps (l_aw g)) (rem_seq steps (l_af g)).
Proof.
  unfold task_remove, rem_seq. generalize (rev steps) as r.
  induction r as [|k r IH]; intros g n H; cbn [fold_left]; [destruct g; reflexivity|].
  destruct H as (H1 & H2 & H3 & H4). unfold rem_one at 2 4 6 8. rewrite H1, H2, H3, H4.
  destruct (k <? n) eqn:E.
  - apply Nat.ltb_lt in E. rewrite (IH _ (n - 1)); [reflexivity|].
    unfold tlog_len. cbn [l_st l_rem l_aw l_af]. rewrite !remove_at_length by lia. repeat split; congruence.
  - apply (IH g n). repeat split; assumption.
Qed.
Lemma res_remove_split steps : forall g n, rlog_len n g ->
  res_remove steps g = mkRLog (rem_seq steps (rl_st g)) (rem_seq steps (rl_cost g)) (rem_seq steps (rl_asg g)).
Proof.
  unfold res_remove, rem_seq. generalize (rev steps) as r.
  induction r as [|k r IH]; intros g n H; cbn [fold_left]; [destruct g; reflexivity|].
  destruct H as (H1 & H2 & H3). unfold rem_one at 2 4 6. rewrite H1, H2, H3.
  destruct (k <? n) eqn:E.
  - apply Nat.ltb_lt in E. rewrite (IH _ (n - 1)); [reflexivity|].
    unfold rlog_len. cbn [rl_st rl_cost rl_asg]. rewrite !remove_at_length by lia. repeat split; congruence.
  - apply (IH g n). repeat split; assumption.
Qed.
Lemma comp_remove_split steps : forall g n, clog_len n g ->
  comp_remove steps g = mkCLog (rem_seq steps (cl_st g)) (rem_seq steps (cl_pw g)).
Proof.
  unfold comp_remove, rem_seq. generalize (rev steps) as r.
  induction r as [|k r IH]; intros g n H; cbn [fold_left]; [destruct g; reflexivity|].
  destruct H as (H1 & H2). unfold rem_one at 2 4. rewrite H1, H2.
  destruct (k <? n) eqn:E.
  - apply Nat.ltb_lt in E. rewrite (IH _ (n - 1)); [reflexivity|].
    unfold clog_len. cbn [cl_st cl_pw]. rewrite !remove_at_length by lia. split; congruence.
  - apply (IH g n). split; assumption.
Qed.

Lemma Forall2_len {A B} (P : A -> B -> Prop) l m : Forall2 P l m -> length l = length m.
Proof. induction 1; cbn [length]; congruence. Qed.

Section Final.
Variable c : cfg.
Variable oA : opts.
Notation oB := (no_abs oA).
Notation L := (o_abs oA).
Notation KE := (KEg c true).

(* key-equal working rows have the same log entries *)
Lemma map_rows {B} (f : row -> B) hA hB : (forall ra rb, R c ra rb -> f ra = f rb) ->
  Forall2 (R c) hA hB -> map f hA = map f hB.
Proof. intros Hf. induction 1 as [|ra rb hA hB Hr _ IH]; cbn [map]; [reflexivity|]. rewrite (Hf ra rb Hr), IH. reflexivity. Qed.

Lemma rem_rows {B} (f : row -> B) hA hB : (forall ra rb, R c ra rb -> f ra = f rb) ->
  Forall2 (R c) (keep L 0 hA) hB -> rem_seq (sorted_set L) (map f hA) = map f hB.
Proof. intros Hf H. rewrite rem_seq_sorted_set, keep_map. apply map_rows; assumption. Qed.

Lemma R_td ra rb t : R c ra rb -> strip (td (snd ra) t) = strip (td (snd rb) t).
Proof. intros (_ & _ & (A & _)). apply A. Qed.
Lemma R_wd ra rb w : R c ra rb -> wd (snd ra) w = wd (snd rb) w.
Proof. intros (_ & _ & H). apply (KE_wd c _ _ w H). Qed.
Lemma R_fd ra rb f : R c ra rb -> fd (snd ra) f = fd (snd rb) f.
Proof. intros (_ & _ & H). apply (KE_fd c _ _ f H). Qed.
Lemma R_fst ra rb : R c ra rb -> fst ra = fst rb.
Proof. intros (A & B & _). congruence. Qed.

Lemma R_wcost ra rb w : R c ra rb -> wcost c ra w = wcost c rb w.
Proof. intros H. unfold wcost. rewrite (R_fst _ _ H), (R_wd _ _ w H). reflexivity. Qed.
Lemma R_fcost ra rb f : R c ra rb -> fcost c ra f = fcost c rb f.
Proof. intros H. unfold fcost. rewrite (R_fst _ _ H), (R_fd _ _ f H). reflexivity. Qed.
Lemma R_teamcost ra rb g : R c ra rb -> teamcost c ra g = teamcost c rb g.
Proof. intros H. unfold teamcost. f_equal. apply map_ext. intros w. apply R_wcost. exact H. Qed.
Lemma R_wpcost ra rb p : R c ra rb -> wpcost c ra p = wpcost c rb p.
Proof. intros H. unfold wpcost. f_equal. apply map_ext. intros f. apply R_fcost. exact H. Qed.
Lemma R_total ra rb : R c ra rb -> total c ra = total c rb.
Proof.
  intros H. unfold total.
  rewrite (map_ext _ _ (fun p => R_wpcost ra rb p H)), (map_ext _ _ (fun g => R_teamcost ra rb g H)). reflexivity.
Qed.

(* what the theorem compares: everything except the PERT scratch values
   (est / eft / lst / lft of a task, critical_path_length) *)
Definition same_result (d b : pstate) : Prop :=
  time d = time b /\ status d = status b /\ KE d b
  /\ (forall t, t < nT c -> tl d t = tl b t) /\ (forall w, w < nW c -> wl d w = wl b w)
  /\ (forall f, f < nF c -> fl d f = fl b f) /\ (forall k, k < nC c -> cl d k = cl b k)
  /\ (forall p, p < nWP c -> wpl d p = wpl b p) /\ (forall g, g < nTeam c -> teaml d g = teaml b g)
  /\ orgl d = orgl b /\ costl d = costl b.

Lemma deletion_of_histories a b hA hB :
  LogsAre c hA hA a -> LogsAre c hB hB b -> length hA = time a -> length hB = time b ->
  status a = status b -> KE a b -> Forall2 (R c) (keep L 0 hA) hB ->
  same_result (snd (remove_absence c (L, a))) b.
Proof.
  intros (A1 & A2 & A3 & A4 & A5 & A6 & A7 & A8) (B1 & B2 & B3 & B4 & B5 & B6 & B7 & B8) La Lb Hs HK Hrows.
  unfold remove_absence, snd. set (steps := sorted_set L).
  assert (Hlen : length (keep L 0 hA) = length hB) by (eapply Forall2_len; exact Hrows).
  unfold same_result, edit_logs. cbn [time status tl wl fl cl wpl teaml orgl costl].
  split.
  { unfold removed_count. rewrite A8. unfold steps. rewrite rem_seq_sorted_set, keep_map, !map_length, Hlen.
    pose proof (keep_length_le L hA 0). lia. }
  split; [exact Hs|]. split; [exact HK|].
  split.
  { intros t Ht. rewrite tab_spec. pose proof Ht as Ht'. apply Nat.ltb_lt in Ht'. rewrite Ht'.
    rewrite (A1 t Ht), (B1 t Ht). rewrite (task_remove_split steps _ (length hA)) by (unfold tlog_len, row_tlog; cbn; rewrite !map_length; repeat split).
    unfold row_tlog. cbn [l_st l_rem l_aw l_af]. unfold steps. f_equal; apply rem_rows; try exact Hrows; intros ra rb Hr;
      pose proof (strip_fields _ _ (R_td ra rb t Hr)) as (S1 & S2 & S3 & S4); rewrite ?(R_fst _ _ Hr); congruence. }
  split.
  { intros w Hw. rewrite tab_spec. pose proof Hw as Hw'. apply Nat.ltb_lt in Hw'. rewrite Hw'.
    rewrite (A2 w Hw), (B2 w Hw). rewrite (res_remove_split steps _ (length hA)) by (unfold rlog_len, row_wlog; cbn; rewrite !map_length; repeat split).
    unfold row_wlog. cbn [rl_st rl_cost rl_asg]. unfold steps. f_equal; apply rem_rows; try exact Hrows; intros ra rb Hr;
      rewrite ?(R_fst _ _ Hr), ?(R_wd _ _ w Hr); try reflexivity. apply R_wcost; exact Hr. }
  split.
  { intros f Hf. rewrite tab_spec. pose proof Hf as Hf'. apply Nat.ltb_lt in Hf'. rewrite Hf'.
    rewrite (A3 f Hf), (B3 f Hf). rewrite (res_remove_split steps _ (length hA)) by (unfold rlog_len, row_flog; cbn; rewrite !map_length; repeat split).
    unfold row_flog. cbn [rl_st rl_cost rl_asg]. unfold steps. f_equal; apply rem_rows; try exact Hrows; intros ra rb Hr;
      rewrite ?(R_fst _ _ Hr), ?(R_fd _ _ f Hr); try reflexivity. apply R_fcost; exact Hr. }
  split.
  { intros k Hk. rewrite tab_spec. pose proof Hk as Hk'. apply Nat.ltb_lt in Hk'. rewrite Hk'.
    rewrite (A4 k Hk), (B4 k Hk). rewrite (comp_remove_split steps _ (length hA)) by (unfold clog_len, row_clog; cbn; rewrite !map_length; split; reflexivity).
    unfold row_clog. cbn [cl_st cl_pw]. unfold steps. f_equal; apply rem_rows; try exact Hrows; intros ra rb Hr;
      destruct Hr as (F1 & F2 & (_ & _ & _ & D & _)); rewrite ?F1, ?F2, (D k); reflexivity. }
  split.
  { intros p Hp. rewrite tab_spec. pose proof Hp as Hp'. apply Nat.ltb_lt in Hp'. rewrite Hp'.
    rewrite (A5 p Hp), (B5 p Hp). unfold wp_remove, row_wplog. cbn [wl_cost wl_pc]. unfold steps.
    f_equal; apply rem_rows; try exact Hrows; intros ra rb Hr; [apply R_wpcost; exact Hr|].
    destruct Hr as (_ & _ & (_ & _ & _ & _ & E)). apply E. }
  split.
  { intros g Hg. rewrite tab_spec. pose proof Hg as Hg'. apply Nat.ltb_lt in Hg'. rewrite Hg'.
    rewrite (A6 g Hg), (B6 g Hg). unfold cost_remove, steps. apply rem_rows; [|exact Hrows]. intros ra rb Hr. apply R_teamcost; exact Hr. }
  split.
  { rewrite A7, B7. unfold cost_remove, steps. apply rem_rows; [|exact Hrows]. intros ra rb Hr. apply R_total; exact Hr. }
  rewrite A8, B8. unfold cost_remove, steps. apply rem_rows; [|exact Hrows]. intros ra rb Hr. apply R_total; exact Hr.
Qed.

Hypothesis Hwabs : forall w, w_abs c w = [].
Hypothesis Hfabs : forall f, f_abs c f = [].
Hypothesis HF : Forest c.
Hypothesis Hinit : o_init_state oA = true.
Hypothesis Hlog : o_init_log oA = true.

Section WithInvariant.
Variable Iv IvB : pstate -> Prop.
Hypothesis Iv_next : forall x, Iv x -> Iv (next c oA (update c oA x)).
Hypothesis IvB_next : forall y, IvB y -> IvB (next c oB (update c oB y)).
Hypothesis Iv_stutter : forall x, Iv x -> mem (time x) L = true ->
  KEg c false (half c oA (update c oA x)) (update c oA x).
Hypothesis Iv_sort : forall x y, Iv x -> IvB y -> KEg c false (update c oA x) (update c oA y) ->
  SortAgree c (o_rule oA) (update c oA x) (update c oA y).
Hypothesis Iv_init : forall s0, Iv (initialize c oA s0) /\ IvB (initialize c oA s0).

Lemma deletion_generic s0 :
  status (fst (simulate c oA s0)) = StSuccess ->
  same_result (snd (remove_absence c (L, fst (simulate c oA s0)))) (fst (simulate c oB s0)).
Proof.
  intros Hst.
  destruct (simulate_trace c oA s0) as (trA & HtA & _).
  destruct (simulate_trace c oB s0) as (trB0 & HtB0 & _).
  set (x0 := initialize c oA s0) in *.
  change (initialize c oB s0) with x0 in HtB0.
  destruct (logs_initialize_clear c oA s0 Hlog) as [H0 T0]. fold x0 in H0, T0.
  destruct (sim c oA Hwabs Hfabs HF Iv IvB Iv_next IvB_next Iv_stutter Iv_sort x0 trA _ HtA Hst x0) as (trB & fB & HtB & HsB & HfB & Hrows).
  { apply Iv_init. }
  { apply Iv_init. }
  { apply PInv_initialize. exact Hinit. }
  { left. apply KE_refl. }
  { lia. }
  assert (EB : fB = fst (simulate c oB s0)) by (apply (trace_det c oB _ _ _ HtB _ _ HtB0)).
  rewrite <- EB.
  destruct (logs_are_history c oA x0 trA _ HtA [] (eq_sym T0) H0) as [LA1 LA2].
  destruct (logs_are_history c oB x0 trB _ HtB [] (eq_sym T0) H0) as [LB1 LB2].
  cbn [app] in *.
  apply (deletion_of_histories _ _ (perf_rows oA trA) (perf_rows oB trB)); try assumption.
  - rewrite Hst, HsB. reflexivity.
  - rewrite T0 in Hrows. exact Hrows.
Qed.
End WithInvariant.

(* when is an absence step a stutter: the auto-task flag is off, or there is
   no automatic task (and the configuration is well formed) *)
Definition stutter_class : Prop :=
  o_auto_abs oA = false
  \/ ((forall t, t_auto c t = false)
      /\ (forall w, In w (all_workers c) -> w < nW c) /\ NoDup (all_workers c)
      /\ (forall p f, In f (wp_facs c p) -> f < nF c)).

(* when do the two runs order the candidates the same way: the rule does not
   read PERT values, or it is EST on any network whose links stay inside the
   task list (`PertEst.v`), or it is TSLACK / EST on a finish-to-start DAG with
   non-negative work amounts *)
Definition sort_class : Prop :=
  pert_free (o_rule oA)
  \/ ((o_rule oA = 1)%Z /\ edges_in_range c)
  \/ ((o_rule oA = 0 \/ o_rule oA = 1)%Z
      /\ (exists rank, fs_dag c rank) /\ 0 < nT c
      /\ (forall t, t < nT c -> (0 <= t_work c t)%Q /\ (0 <= t_progress c t <= 1)%Q)).

Definition easy_sort : Prop := pert_free (o_rule oA) \/ ((o_rule oA = 1)%Z /\ edges_in_range c).

Lemma SortAgree_easy x y : easy_sort -> KEg c false (update c oA x) (update c oA y) ->
  SortAgree c (o_rule oA) (update c oA x) (update c oA y).
Proof.
  intros [Hr|[Hr HR]] HK; [apply (SortAgree_pert_free c false); assumption|].
  rewrite Hr.
  destruct (update_as_pert c oA x) as (sx & Ex & _ & Rx). destruct (update_as_pert c oA y) as (sy & Ey & _ & Ry).
  rewrite Ex, Ey. apply (SortAgree_est c (time sx) (time sy) sx sy HR).
  intros v. pose proof (Rx v) as A. pose proof (Ry v) as B. unfold C02Proof.remof in A, B.
  rewrite A, B. apply (KE_rem c false _ _ v HK).
Qed.

Lemma NN_next rank o x : fs_dag c rank -> NN c x -> NN c (next c o (update c o x)).
Proof.
  intros D H. unfold next, half. apply (NN_td c (step_perform c o (step_allocate c o (update c o x)))); [reflexivity|].
  apply (NN_step_perform c). apply (NN_step_allocate c). apply (NN_after_update c rank D). exact H.
Qed.

Theorem deletion_gives_the_absence_free_run : stutter_class -> sort_class -> forall s0,
  status (fst (simulate c oA s0)) = StSuccess ->
  same_result (snd (remove_absence c (L, fst (simulate c oA s0)))) (fst (simulate c oB s0)).
Proof.
  intros HS HP.
  assert (HP' : easy_sort \/ ((o_rule oA = 0 \/ o_rule oA = 1)%Z
      /\ (exists rank, fs_dag c rank) /\ 0 < nT c
      /\ (forall t, t < nT c -> (0 <= t_work c t)%Q /\ (0 <= t_progress c t <= 1)%Q))).
  { destruct HP as [H|[H|H]]; [left; left; exact H|left; right; exact H|right; exact H]. }
  clear HP. rename HP' into HP.
  apply (deletion_generic
           (fun x => (o_auto_abs oA = false \/ Q0 c x) /\ (easy_sort \/ NN c x))
           (fun y => easy_sort \/ NN c y)).
  - intros x [H1 H2]. split.
    + destruct HS as [Ha|(Hna & W1 & W2 & W3)]; [left; exact Ha|].
      destruct H1 as [Ha|HQ]; [left; exact Ha|right; apply Q0_next; assumption].
    + destruct HP as [Hr|(_ & (rank & D) & Hn & _)]; [left; exact Hr|].
      destruct H2 as [Hr|HN]; [left; exact Hr|right; apply (NN_next rank); assumption].
  - intros y H2. destruct HP as [Hr|(_ & (rank & D) & Hn & _)]; [left; exact Hr|].
    destruct H2 as [Hr|HN]; [left; exact Hr|right; apply (NN_next rank); assumption].
  - intros x [H1 _] Hm. destruct H1 as [Ha|HQ].
    + apply absence_half; [exact Ha|]. rewrite (time_update c oA). exact Hm.
    + destruct HS as [Ha|(Hna & W1 & W2 & W3)].
      * apply absence_half; [exact Ha|]. rewrite (time_update c oA). exact Hm.
      * destruct (o_auto_abs oA) eqn:Ea.
        -- apply absence_half_auto; assumption.
        -- apply absence_half; [exact Ea|]. rewrite (time_update c oA). exact Hm.
  - intros x y [_ H2] H3 HK.
    destruct HP as [Hr|(Hrule & (rank & D) & Hn & _)]; [apply SortAgree_easy; assumption|].
    destruct H2 as [Hr|HNx]; [apply SortAgree_easy; assumption|].
    destruct H3 as [Hr|HNy]; [apply SortAgree_easy; assumption|].
    apply (SortAgree_pert c rank D _ _ (inject_nat (time x)) (inject_nat (time y))).
    + apply (update_PertOK c rank D Hn). exact HNx.
    + apply (update_PertOK c rank D Hn). exact HNy.
    + intros v. apply (KE_rem c false _ _ v HK).
    + exact Hrule.
  - intros s0. split; [split|].
    + destruct HS as [Ha|(Hna & W1 & W2 & W3)]; [left; exact Ha|right; apply Q0_initialize; exact Hinit].
    + destruct HP as [Hr|(_ & (rank & D) & Hn & Hw)]; [left; exact Hr|right; apply (NN_initialize c Hw); exact Hinit].
    + destruct HP as [Hr|(_ & (rank & D) & Hn & Hw)]; [left; exact Hr|right; apply (NN_initialize c Hw); exact Hinit].
Qed.

End Final.

(* C12: on a finish-to-start DAG the forward and backward PERT passes compute
   the critical-path recurrences. *)
From Coq Require Import List ZArith QArith Bool Arith Lia Lqa.
From PV Require Import Model.Types Model.Sim Proofs.Base Proofs.Proj Proofs.Worklist Proofs.C11Proof.
Import ListNotations.
Open Scope nat_scope.

Lemma Qleb_true a b : Qleb a b = true <-> (a <= b)%Q.
Proof. unfold Qleb. apply Qle_bool_iff. Qed.
Lemma Qleb_false a b : Qleb a b = false <-> (b < a)%Q.
Proof.
  unfold Qleb. split.
  - intros H. destruct (Qlt_le_dec b a) as [L|L]; [exact L|]. apply Qle_bool_iff in L. congruence.
  - intros H. destruct (Qle_bool a b) eqn:E; [|reflexivity]. apply Qle_bool_iff in E. lra.
Qed.

Section C12.
Variable c : cfg.
Variable rank : nat -> nat.

(* a finish-to-start network whose lists mirror each other, numbered
   topologically by [rank] (which is what acyclic means) *)
Record fs_dag : Prop := {
  fd_fs_out : forall u e, In e (t_outputs c u) -> snd e = FS;
  fd_mirror : forall u v k, In (v, k) (t_outputs c u) <-> In (u, k) (t_inputs c v);
  fd_range_out : forall u e, In e (t_outputs c u) -> fst e < nT c;
  fd_range_in : forall v e, In e (t_inputs c v) -> fst e < nT c;
  fd_rank : forall u e, In e (t_outputs c u) -> rank u < rank (fst e);
  fd_rank_bound : forall v, v < nT c -> rank v < nT c
}.
Hypothesis DAG : fs_dag.

Lemma fs_in v e : In e (t_inputs c v) -> snd e = FS.
Proof.
  destruct e as [u k]. intros H. apply (fd_mirror DAG) in H. apply (fd_fs_out DAG) in H. exact H.
Qed.
Lemma src_range u e : In e (t_outputs c u) -> u < nT c.
Proof.
  destruct e as [v k]. intros H. apply (fd_mirror DAG) in H. apply (fd_range_in DAG) in H. exact H.
Qed.
Lemma tgt_range v e : In e (t_inputs c v) -> v < nT c.
Proof.
  destruct e as [u k]. intros H. apply (fd_mirror DAG) in H. apply (fd_range_out DAG) in H. exact H.
Qed.

Lemma fwd_loop_eq fuel : forall s front, fwd_loop c fuel s front = loop pstate (t_outputs c) fwd_edge fuel s front.
Proof.
  induction fuel as [|f IH]; intros s front; cbn [fwd_loop loop]; [reflexivity|].
  destruct front as [|x r]; [reflexivity|].
  change (fwd_round c s (x :: r)) with (round pstate (t_outputs c) fwd_edge s (x :: r)).
  destruct (round pstate (t_outputs c) fwd_edge s (x :: r)) as [s' nxt]. apply IH.
Qed.
Lemma bwd_loop_eq fuel : forall s front, bwd_loop c fuel s front = loop pstate (t_inputs c) bwd_edge fuel s front.
Proof.
  induction fuel as [|f IH]; intros s front; cbn [bwd_loop loop]; [reflexivity|].
  destruct front as [|x r]; [reflexivity|].
  change (bwd_round c s (x :: r)) with (round pstate (t_inputs c) bwd_edge s (x :: r)).
  destruct (round pstate (t_inputs c) bwd_edge s (x :: r)) as [s' nxt]. apply IH.
Qed.

(* ================================================================ forward *)
Section Forward.
Variable tm : Q.
Variable R : nat -> Q.                       (* remaining work, untouched by the pass *)
Hypothesis R_nonneg : forall v, v < nT c -> (0 <= R v)%Q.

Definition TouchedF (s : pstate) (v : nat) : Prop := (eft (td s v) == est (td s v) + R v)%Q.
Definition GoodF (s : pstate) : Prop :=
  (forall v, rem (td s v) = R v)
  /\ (forall v, v < nT c -> (tm <= est (td s v))%Q)
  /\ (forall v, v < nT c -> TouchedF s v \/ (est (td s v) == tm)%Q)
  /\ (forall v, v < nT c -> t_inputs c v = [] -> (est (td s v) == tm)%Q /\ (eft (td s v) == tm + R v)%Q)
  /\ (forall v, v < nT c -> (est (td s v) == tm)%Q
                            \/ exists u, In (u, FS) (t_inputs c v) /\ (est (td s v) <= est (td s u) + R u)%Q).
Definition SatF (s : pstate) (u : nat) (e : nat * dep) : Prop :=
  (est (td s u) + R u <= est (td s (fst e)))%Q /\ TouchedF s (fst e).

Lemma fwd_edge_FS s u v :
  let a := (est (td s u) + rem (td s u))%Q in
  ((est (td s v) <= a)%Q /\
   fwd_edge s u (v, FS) = with_td s (upd (td s) v (set_est_eft (td s v) a (a + rem (td s v))%Q)))
  \/ ((a < est (td s v))%Q /\ fwd_edge s u (v, FS) = s).
Proof.
  cbv zeta. unfold fwd_edge. cbn [fst snd].
  destruct (Qleb (est (td s v)) (est (td s u) + rem (td s u))) eqn:E.
  - left. split; [apply Qleb_true; exact E|reflexivity].
  - right. split; [apply Qleb_false; exact E|reflexivity].
Qed.

Lemma GoodF_step s u e : In e (t_outputs c u) -> GoodF s -> GoodF (fwd_edge s u e).
Proof.
  intros He (G1 & G2 & G3 & G4 & G5). destruct e as [v k].
  assert (k = FS) by (apply (fd_fs_out DAG u _ He)). subst k.
  assert (Hu : u < nT c) by (eapply src_range; exact He).
  assert (Hv : v < nT c) by (apply (fd_range_out DAG u _ He)).
  assert (Hne : v <> u) by (pose proof (fd_rank DAG u _ He) as Hr; cbn in Hr; intros E; rewrite E in Hr; lia).
  assert (Hin : In (u, FS) (t_inputs c v)) by (apply (fd_mirror DAG); exact He).
  destruct (fwd_edge_FS s u v) as [[Hle ->]|[Hlt ->]]; [|exact (conj G1 (conj G2 (conj G3 (conj G4 G5))))].
  rewrite !G1 in *. unfold GoodF, TouchedF. cbn [td with_td].
  assert (Eu : upd (td s) v (set_est_eft (td s v) (est (td s u) + R u) (est (td s u) + R u + R v)) u = td s u)
    by (apply upd_other; congruence).
  split; [|split; [|split; [|split]]].
  - intros w. rewrite upd_eq. destruct (Nat.eqb w v) eqn:E; [apply Nat.eqb_eq in E; subst; cbn; apply G1|apply G1].
  - intros w Hw. rewrite upd_eq. destruct (Nat.eqb w v) eqn:E; [|apply G2; exact Hw].
    cbn [est set_est_eft]. pose proof (G2 u Hu). pose proof (R_nonneg u Hu). lra.
  - intros w Hw. rewrite upd_eq. destruct (Nat.eqb w v) eqn:E; [|apply G3; exact Hw].
    apply Nat.eqb_eq in E. subst w. left. cbn [est eft set_est_eft]. lra.
  - intros w Hw Hhead. rewrite upd_eq. destruct (Nat.eqb w v) eqn:E; [|apply G4; assumption].
    apply Nat.eqb_eq in E. subst w. rewrite Hhead in Hin. destruct Hin.
  - intros w Hw. rewrite upd_eq. destruct (Nat.eqb w v) eqn:E.
    + apply Nat.eqb_eq in E. subst w. right. exists u. split; [exact Hin|].
      cbn [est set_est_eft]. rewrite Eu. lra.
    + destruct (G5 w Hw) as [H|(u' & Hu' & Hle')]; [left; exact H|right]. exists u'. split; [exact Hu'|].
      rewrite upd_eq. destruct (Nat.eqb u' v) eqn:E'; [|exact Hle'].
      apply Nat.eqb_eq in E'. subst u'. cbn [est set_est_eft]. lra.
Qed.

Lemma SatF_new s u e : In e (t_outputs c u) -> GoodF s -> SatF (fwd_edge s u e) u e.
Proof.
  intros He (G1 & G2 & G3 & G4 & G5). destruct e as [v k].
  assert (k = FS) by (apply (fd_fs_out DAG u _ He)). subst k.
  assert (Hu : u < nT c) by (eapply src_range; exact He).
  assert (Hv : v < nT c) by (apply (fd_range_out DAG u _ He)).
  assert (Hne : v <> u) by (pose proof (fd_rank DAG u _ He) as Hr; cbn in Hr; intros E; rewrite E in Hr; lia).
  unfold SatF, TouchedF. cbn [fst].
  destruct (fwd_edge_FS s u v) as [[Hle ->]|[Hlt ->]]; rewrite !G1 in *.
  - cbn [td with_td]. rewrite upd_same, (upd_other _ v u) by congruence. cbn [est eft set_est_eft]. split; lra.
  - split; [lra|]. destruct (G3 v Hv) as [H|H]; [exact H|].
    pose proof (G2 u Hu). pose proof (R_nonneg u Hu). lra.
Qed.

Lemma SatF_keep s u e u' e' : In e (t_outputs c u) -> In e' (t_outputs c u') -> GoodF s ->
  SatF s u' e' -> fst e <> u' -> SatF (fwd_edge s u e) u' e'.
Proof.
  intros He He' (G1 & G2 & G3 & G4 & G5) [S1 S2] Hne'. destruct e as [v k]. cbn [fst] in Hne'.
  assert (k = FS) by (apply (fd_fs_out DAG u _ He)). subst k.
  unfold SatF, TouchedF in *.
  destruct (fwd_edge_FS s u v) as [[Hle ->]|[Hlt ->]]; [|split; assumption].
  rewrite !G1 in *. cbn [td with_td]. rewrite (upd_other _ v u') by congruence.
  rewrite upd_eq. destruct (Nat.eqb (fst e') v) eqn:E; [|split; assumption].
  apply Nat.eqb_eq in E. rewrite E in *. cbn [est eft set_est_eft]. split; lra.
Qed.

(* the state after the initialisation of the forward pass *)
Definition fwd_init (s : pstate) : pstate :=
  with_td s (tab (nT c) (fun t => let x := td s t in
                  match t_inputs c t with
                  | [] => set_est_eft x tm (tm + rem x)%Q
                  | _ => set_est_eft x tm (eft x)
                  end) (td s)).

Lemma GoodF_init s : (forall v, rem (td s v) = R v) -> GoodF (fwd_init s).
Proof.
  intros HR. unfold GoodF, fwd_init, TouchedF. cbn [td with_td].
  split; [|split; [|split; [|split]]].
  - intros v. rewrite tab_spec. destruct (v <? nT c); [|apply HR]. destruct (t_inputs c v); cbn; apply HR.
  - intros v Hv. rewrite tab_spec. apply Nat.ltb_lt in Hv. rewrite Hv. destruct (t_inputs c v); cbn; lra.
  - intros v Hv. right. rewrite tab_spec. apply Nat.ltb_lt in Hv. rewrite Hv. destruct (t_inputs c v); cbn; lra.
  - intros v Hv Hh. rewrite tab_spec. apply Nat.ltb_lt in Hv. rewrite Hv, Hh. cbn. rewrite HR. split; lra.
  - intros v Hv. left. rewrite tab_spec. apply Nat.ltb_lt in Hv. rewrite Hv. destruct (t_inputs c v); cbn; lra.
Qed.

Definition heads : list nat := filter (fun t => match t_inputs c t with [] => true | _ => false end) (tasks c).

Lemma pert_forward_unfold s : pert_forward c tm s = loop pstate (t_outputs c) fwd_edge (S (nT c)) (fwd_init s) heads.
Proof. unfold pert_forward. rewrite fwd_loop_eq. reflexivity. Qed.

(* every task is processed: heads first, everybody else after a predecessor *)
Lemma all_processed (P : list nat) : incl heads P ->
  (forall u, In u P -> forall e, In e (t_outputs c u) -> In (fst e) P) ->
  forall n v, rank v < n -> v < nT c -> In v P.
Proof.
  intros Hh Hcl. induction n as [|n IH]; intros v Hr Hv; [lia|].
  destruct (t_inputs c v) as [|[u k] r] eqn:Ein.
  - apply Hh. unfold heads. apply filter_In. split; [unfold tasks; apply in_seq; lia|]. rewrite Ein. reflexivity.
  - assert (Hin : In (u, k) (t_inputs c v)) by (rewrite Ein; left; reflexivity).
    assert (Hout : In (v, k) (t_outputs c u)) by (apply (fd_mirror DAG); exact Hin).
    assert (Hu : u < nT c) by (apply (fd_range_in DAG v _ Hin)).
    pose proof (fd_rank DAG u _ Hout) as Hrk. cbn [fst] in Hrk.
    apply (Hcl u (IH u ltac:(lia) Hu) (v, k) Hout).
Qed.

(* the forward recurrences *)
Theorem forward_correct s : (forall v, rem (td s v) = R v) ->
  let s' := pert_forward c tm s in
  (forall v, rem (td s' v) = R v)
  /\ (forall v, v < nT c -> (eft (td s' v) == est (td s' v) + R v)%Q /\ (tm <= est (td s' v))%Q)
  /\ (forall v, v < nT c -> t_inputs c v = [] -> (est (td s' v) == tm)%Q)
  /\ (forall v u, v < nT c -> In (u, FS) (t_inputs c v) -> (eft (td s' u) <= est (td s' v))%Q)
  /\ (forall v, v < nT c -> t_inputs c v <> [] ->
        exists u, In (u, FS) (t_inputs c v) /\ (est (td s' v) == eft (td s' u))%Q).
Proof.
  intros HR. cbv zeta. rewrite pert_forward_unfold.
  destruct (loop_result pstate (t_outputs c) fwd_edge rank (nT c)
              (fun u e He => conj (fd_rank DAG u e He) (fd_rank_bound DAG _ (fd_range_out DAG u e He)))
              GoodF (fun _ _ => True) SatF
              (fun s0 u e He G _ => GoodF_step s0 u e He G)
              (fun _ _ _ _ _ _ => I) (fun _ _ _ _ _ _ _ _ => I)
              (fun s0 u e He G _ => SatF_new s0 u e He G)
              (fun s0 u e u' e' He He' G _ => SatF_keep s0 u e u' e' He He' G)
              (S (nT c)) (fwd_init s) heads (GoodF_init s HR))
    as (P & Hheads & HG & _ & HP).
  { intros x Hx. split; [exact I|]. apply (fd_rank_bound DAG). unfold heads in Hx. apply filter_In in Hx.
    destruct Hx as [Hx _]. unfold tasks in Hx. apply in_seq in Hx. lia. }
  { lia. }
  set (sf := loop pstate (t_outputs c) fwd_edge (S (nT c)) (fwd_init s) heads) in *.
  destruct HG as (G1 & G2 & G3 & G4 & G5).
  assert (Hall : forall v, v < nT c -> In v P).
  { intros v Hv. apply (all_processed P Hheads (fun u Hu e He => proj1 (HP u Hu e He)) (S (rank v))); [lia|exact Hv]. }
  assert (Hedge : forall v u, v < nT c -> In (u, FS) (t_inputs c v) -> SatF sf u (v, FS)).
  { intros v u Hv Hin. apply (HP u); [apply Hall; apply (fd_range_in DAG v _ Hin)|apply (fd_mirror DAG); exact Hin]. }
  assert (Htouched : forall v, v < nT c -> TouchedF sf v).
  { intros v Hv. destruct (t_inputs c v) as [|[u k] r] eqn:Ein.
    - destruct (G4 v Hv Ein) as [A B]. unfold TouchedF. lra.
    - assert (Hin : In (u, k) (t_inputs c v)) by (rewrite Ein; left; reflexivity).
      assert (k = FS) by (apply (fs_in v _ Hin)). subst k. apply (Hedge v u Hv Hin). }
  split; [exact G1|]. split; [|split; [|split]].
  - intros v Hv. split; [apply Htouched; exact Hv|apply G2; exact Hv].
  - intros v Hv Hh. apply (G4 v Hv Hh).
  - intros v u Hv Hin. destruct (Hedge v u Hv Hin) as [A _]. cbn [fst] in A.
    pose proof (Htouched u (fd_range_in DAG v _ Hin)) as Tu. unfold TouchedF in Tu. lra.
  - intros v Hv Hne. destruct (G5 v Hv) as [Etm|(u & Hin & Hle)].
    + destruct (t_inputs c v) as [|[u k] r] eqn:Ein; [congruence|].
      assert (Hin : In (u, k) (t_inputs c v)) by (rewrite Ein; left; reflexivity).
      assert (k = FS) by (apply (fs_in v _ Hin)). subst k.
      exists u. rewrite <- Ein. split; [exact Hin|].
      destruct (Hedge v u Hv Hin) as [A _]. cbn [fst] in A.
      assert (Hu : u < nT c) by (apply (fd_range_in DAG v _ Hin)).
      pose proof (Htouched u Hu) as Tu. unfold TouchedF in Tu.
      pose proof (G2 u Hu). pose proof (R_nonneg u Hu). lra.
    + exists u. split; [exact Hin|].
      destruct (Hedge v u Hv Hin) as [A _]. cbn [fst] in A.
      pose proof (Htouched u (fd_range_in DAG v _ Hin)) as Tu. unfold TouchedF in Tu. lra.
Qed.

End Forward.

(* =============================================================== backward *)
Lemma max_eft_spec s l : l <> [] ->
  (forall t, In t l -> (eft (td s t) <= max_eft s l)%Q) /\ (exists t, In t l /\ (max_eft s l == eft (td s t))%Q).
Proof.
  destruct l as [|x r]; [congruence|]. intros _. unfold max_eft.
  assert (G : forall r m, (forall t, In t r -> (eft (td s t) <= fold_left (fun m t => if Qltb m (eft (td s t)) then eft (td s t) else m) r m)%Q)
                        /\ (m <= fold_left (fun m t => if Qltb m (eft (td s t)) then eft (td s t) else m) r m)%Q
                        /\ ((fold_left (fun m t => if Qltb m (eft (td s t)) then eft (td s t) else m) r m == m)%Q
                            \/ exists t, In t r /\ (fold_left (fun m t => if Qltb m (eft (td s t)) then eft (td s t) else m) r m == eft (td s t))%Q)).
  { clear. induction r as [|y r IH]; intros m; cbn [fold_left].
    - split; [intros t []|]. split; [lra|left; lra].
    - destruct (IH (if Qltb m (eft (td s y)) then eft (td s y) else m)) as (A & B & C).
      destruct (Qltb m (eft (td s y))) eqn:E.
      + apply Qltb_true in E. split; [intros t [<-|Ht]; [exact B|apply A; exact Ht]|]. split; [lra|].
        right. destruct C as [C|(t & Ht & C)]; [exists y; split; [left; reflexivity|exact C]|exists t; split; [right; exact Ht|exact C]].
      + apply Qltb_false in E. split; [intros t [<-|Ht]; [lra|apply A; exact Ht]|]. split; [exact B|].
        destruct C as [C|(t & Ht & C)]; [left; exact C|right; exists t; split; [right; exact Ht|exact C]]. }
  destruct (G r (eft (td s x))) as (A & B & C). split.
  - intros t [<-|Ht]; [exact B|apply A; exact Ht].
  - destruct C as [C|(t & Ht & C)]; [exists x; split; [left; reflexivity|exact C]|exists t; split; [right; exact Ht|exact C]].
Qed.

Section Backward.
Variable tm cp : Q.
Variables E F R : nat -> Q.
Variable St : nat -> tstate.
Hypothesis R_nonneg : forall v, v < nT c -> (0 <= R v)%Q.
Hypothesis tm_nonneg : (0 <= tm)%Q.
Hypothesis HF : forall v, v < nT c -> (F v == E v + R v)%Q /\ (tm <= E v)%Q.
Hypothesis Hedge : forall v u, v < nT c -> In (u, FS) (t_inputs c v) -> (F u <= E v)%Q.

Definition rank' (v : nat) : nat := nT c - 1 - rank v.
Lemma rank'_ok o e : In e (t_inputs c o) -> rank' o < rank' (fst e) /\ rank' (fst e) < nT c.
Proof.
  intros He. destruct e as [p k]. cbn [fst].
  assert (Hout : In (o, k) (t_outputs c p)) by (apply (fd_mirror DAG); exact He).
  pose proof (fd_rank DAG p _ Hout) as Hr. cbn [fst] in Hr.
  assert (Ho : o < nT c) by (eapply tgt_range; exact He).
  pose proof (fd_rank_bound DAG o Ho). unfold rank'. lia.
Qed.

Definition TouchedB (s : pstate) (v : nat) : Prop :=
  (lst (td s v) == lft (td s v) - R v)%Q /\ (E v <= lst (td s v))%Q.
Definition ReadyB (s : pstate) (v : nat) : Prop := v < nT c /\ TouchedB s v /\ (lft (td s v) <= cp)%Q.
Definition GoodB (s : pstate) : Prop :=
  (forall v, rem (td s v) = R v)
  /\ (forall v, v < nT c -> (TouchedB s v /\ (lft (td s v) <= cp)%Q) \/ (lft (td s v) < 0)%Q)
  /\ (forall v, v < nT c -> t_outputs c v = [] -> (lft (td s v) == cp)%Q /\ (lst (td s v) == cp - R v)%Q)
  /\ (forall v, v < nT c -> t_outputs c v <> [] -> (lft (td s v) < 0)%Q
        \/ exists o, In (o, FS) (t_outputs c v) /\ TouchedB s o /\ (lst (td s o) <= lft (td s v))%Q)
  /\ (forall v, est (td s v) = E v /\ eft (td s v) = F v /\ st (td s v) = St v).
Definition SatB (s : pstate) (o : nat) (e : nat * dep) : Prop :=
  (lft (td s (fst e)) <= lst (td s o))%Q /\ TouchedB s (fst e).

Lemma touched_lft_nonneg s v : v < nT c -> TouchedB s v -> (0 <= lft (td s v))%Q.
Proof. intros Hv [A B]. destruct (HF v Hv). pose proof (R_nonneg v Hv). lra. Qed.

Lemma bwd_edge_FS s o p :
  let f := lst (td s o) in
  (((lft (td s p) < 0)%Q \/ (f <= lft (td s p))%Q) /\
   bwd_edge s o (p, FS) = with_td s (upd (td s) p (set_lst_lft (td s p) (f - rem (td s p))%Q f)))
  \/ ((0 <= lft (td s p))%Q /\ (lft (td s p) < f)%Q /\ bwd_edge s o (p, FS) = s).
Proof.
  cbv zeta. unfold bwd_edge. cbn [fst snd].
  destruct (Qltb (lft (td s p)) 0) eqn:E1; cbn [orb].
  - left. split; [left; apply Qltb_true; exact E1|reflexivity].
  - destruct (Qleb (lst (td s o)) (lft (td s p))) eqn:E2.
    + left. split; [right; apply Qleb_true; exact E2|reflexivity].
    + right. split; [apply Qltb_false; exact E1|]. split; [apply Qleb_false; exact E2|reflexivity].
Qed.

(* facts about one edge p -> o read as an element of t_inputs c o *)
Lemma in_edge_facts o e : In e (t_inputs c o) ->
  snd e = FS /\ o < nT c /\ fst e < nT c /\ fst e <> o /\ In (o, FS) (t_outputs c (fst e)) /\ t_outputs c (fst e) <> [].
Proof.
  intros He. pose proof (fs_in o e He) as Hk. destruct e as [p k]. cbn [fst snd] in *. subst k.
  assert (Hout : In (o, FS) (t_outputs c p)) by (apply (fd_mirror DAG); exact He).
  pose proof (fd_rank DAG p _ Hout) as Hr. cbn [fst] in Hr.
  split; [reflexivity|]. split; [eapply tgt_range; exact He|]. split; [apply (fd_range_in DAG o _ He)|].
  split; [intros Eq; rewrite Eq in Hr; lia|]. split; [exact Hout|]. intros Eq. rewrite Eq in Hout. destruct Hout.
Qed.

(* the new values written for p by a successful update from o *)
Lemma new_values_ok s o p : GoodB s -> ReadyB s o -> In (p, FS) (t_inputs c o) ->
  let f := lst (td s o) in
  (E p <= f - R p)%Q /\ (f <= cp)%Q.
Proof.
  intros (G1 & _) (Ho & [T1 T2] & Tc) Hin. cbv zeta.
  assert (Hp : p < nT c) by (apply (fd_range_in DAG o _ Hin)).
  destruct (HF p Hp) as [Fp _]. pose proof (Hedge o p Ho Hin). pose proof (R_nonneg o Ho). split; lra.
Qed.

Lemma GoodB_step s o e : In e (t_inputs c o) -> GoodB s -> ReadyB s o -> GoodB (bwd_edge s o e).
Proof.
  intros He G Ro. destruct (in_edge_facts o e He) as (Hk & Ho & Hp & Hne & Hout & Hnt).
  destruct e as [p k]. cbn [fst snd] in *. subst k.
  destruct (new_values_ok s o p G Ro He) as [N1 N2].
  destruct G as (G1 & G2 & G3 & G4 & G5).
  destruct (bwd_edge_FS s o p) as [[Hc ->]|(_ & _ & ->)]; [|exact (conj G1 (conj G2 (conj G3 (conj G4 G5))))].
  rewrite !G1 in *. unfold GoodB, TouchedB. cbn [td with_td].
  split; [|split; [|split; [|split]]].
  - intros w. rewrite upd_eq. destruct (Nat.eqb w p) eqn:Ew; [apply Nat.eqb_eq in Ew; subst; cbn; apply G1|apply G1].
  - intros w Hw. rewrite upd_eq. destruct (Nat.eqb w p) eqn:Ew; [|apply G2; exact Hw].
    apply Nat.eqb_eq in Ew. subst w. left. cbn [lst lft set_lst_lft]. repeat split; lra.
  - intros w Hw Htail. rewrite upd_eq. destruct (Nat.eqb w p) eqn:Ew; [|apply G3; assumption].
    apply Nat.eqb_eq in Ew. subst w. contradiction.
  - intros w Hw Hnt'. rewrite upd_eq. destruct (Nat.eqb w p) eqn:Ew.
    + apply Nat.eqb_eq in Ew. subst w. right. exists o. split; [exact Hout|].
      rewrite (upd_other _ p o) by congruence. destruct Ro as (_ & T & _). split; [exact T|]. cbn [lft set_lst_lft]. lra.
    + destruct (G4 w Hw Hnt') as [H|(o' & Ho' & [T1 T2] & Hle)]; [left; exact H|right]. exists o'. split; [exact Ho'|].
      rewrite upd_eq. destruct (Nat.eqb o' p) eqn:Eo; [|split; [split; assumption|exact Hle]].
      apply Nat.eqb_eq in Eo. subst o'. cbn [lst lft set_lst_lft].
      assert (0 <= lft (td s p))%Q by (apply touched_lft_nonneg; [exact Hp|split; assumption]).
      split; [split; lra|]. destruct Hc as [Hc|Hc]; lra.
  - intros w. rewrite upd_eq. destruct (Nat.eqb w p) eqn:Ew; [apply Nat.eqb_eq in Ew; subst; cbn; apply G5|apply G5].
Qed.

Lemma ReadyB_new s o e : In e (t_inputs c o) -> GoodB s -> ReadyB s o -> ReadyB (bwd_edge s o e) (fst e).
Proof.
  intros He G Ro. destruct (in_edge_facts o e He) as (Hk & Ho & Hp & Hne & Hout & Hnt).
  destruct e as [p k]. cbn [fst snd] in *. subst k.
  destruct (new_values_ok s o p G Ro He) as [N1 N2].
  destruct G as (G1 & G2 & G3 & G4).
  unfold ReadyB, TouchedB. split; [exact Hp|].
  destruct (bwd_edge_FS s o p) as [[Hc ->]|(Hnn & Hlt & ->)].
  - rewrite !G1 in *. cbn [td with_td]. rewrite upd_same. cbn [lst lft set_lst_lft]. repeat split; lra.
  - destruct (G2 p Hp) as [[T Tc]|Hneg]; [split; assumption|lra].
Qed.

Lemma ReadyB_keep s o e x : In e (t_inputs c o) -> GoodB s -> ReadyB s o -> ReadyB s x -> ReadyB (bwd_edge s o e) x.
Proof.
  intros He G Ro Rx. destruct (Nat.eq_dec x (fst e)) as [->|Hx]; [apply ReadyB_new; assumption|].
  destruct (in_edge_facts o e He) as (Hk & _). destruct e as [p k]. cbn [fst snd] in *. subst k.
  destruct (bwd_edge_FS s o p) as [[Hc ->]|(_ & _ & ->)]; [|exact Rx].
  unfold ReadyB, TouchedB in *. cbn [td with_td]. rewrite (upd_other _ p x) by exact Hx. exact Rx.
Qed.

Lemma SatB_new s o e : In e (t_inputs c o) -> GoodB s -> ReadyB s o -> SatB (bwd_edge s o e) o e.
Proof.
  intros He G Ro. pose proof (ReadyB_new s o e He G Ro) as (_ & T & _).
  split; [|exact T].
  destruct (in_edge_facts o e He) as (Hk & Ho & Hp & Hne & Hout & Hnt).
  destruct e as [p k]. cbn [fst snd] in *. subst k.
  destruct (bwd_edge_FS s o p) as [[Hc ->]|(Hnn & Hlt & ->)]; [|lra].
  cbn [td with_td]. rewrite upd_same, (upd_other _ p o) by congruence. cbn [lft set_lst_lft]. lra.
Qed.

Lemma SatB_keep s o e o' e' : In e (t_inputs c o) -> In e' (t_inputs c o') -> GoodB s -> ReadyB s o ->
  SatB s o' e' -> fst e <> o' -> SatB (bwd_edge s o e) o' e'.
Proof.
  intros He He' G Ro [S1 S2] Hne'.
  destruct (in_edge_facts o e He) as (Hk & Ho & Hp & Hne & Hout & Hnt).
  destruct e as [p k]. cbn [fst snd] in *. subst k.
  destruct (new_values_ok s o p G Ro He) as [N1 N2].
  destruct G as (G1 & G2 & G3 & G4).
  unfold SatB, TouchedB in *.
  destruct (bwd_edge_FS s o p) as [[Hc ->]|(_ & _ & ->)]; [|split; assumption].
  rewrite !G1 in *. cbn [td with_td]. rewrite (upd_other _ p o') by congruence.
  rewrite upd_eq. destruct (Nat.eqb (fst e') p) eqn:Ee; [|split; assumption].
  apply Nat.eqb_eq in Ee. rewrite Ee in *. cbn [lst lft set_lst_lft].
  assert (0 <= lft (td s p))%Q by (apply touched_lft_nonneg; [exact Hp|exact S2]).
  split; [destruct Hc as [Hc|Hc]; lra|split; lra].
Qed.


Definition tails : list nat := filter (fun t => match t_outputs c t with [] => true | _ => false end) (tasks c).

Definition bwd_init (s : pstate) : pstate :=
  let s0 := with_td s (tab (nT c) (fun t => set_lst_lft (td s t) (-1)%Q (-1)%Q) (td s)) in
  fold_left (fun s' t => with_td s' (upd (td s') t (set_lst_lft (td s' t) (cp - rem (td s' t))%Q cp))) tails (with_cpl s0 cp).

Lemma tails_fold_td l : forall s1 v,
  td (fold_left (fun s' t => with_td s' (upd (td s') t (set_lst_lft (td s' t) (cp - rem (td s' t))%Q cp))) l s1) v
  = if mem v l then set_lst_lft (td s1 v) (cp - rem (td s1 v))%Q cp else td s1 v.
Proof.
  induction l as [|t l IH]; intros s1 v; cbn [fold_left]; [reflexivity|].
  rewrite IH. cbn [td with_td]. unfold mem at 2. cbn [existsb]. fold (mem v l).
  rewrite upd_eq. destruct (Nat.eqb v t) eqn:Ev; cbn [orb].
  - apply Nat.eqb_eq in Ev. subst t. destruct (mem v l); reflexivity.
  - reflexivity.
Qed.

Lemma bwd_init_td s v : td (bwd_init s) v =
  if mem v tails then set_lst_lft (td s v) (cp - rem (td s v))%Q cp
  else if v <? nT c then set_lst_lft (td s v) (-1)%Q (-1)%Q else td s v.
Proof.
  unfold bwd_init. rewrite tails_fold_td. cbn [td with_td with_cpl]. rewrite tab_spec.
  destruct (mem v tails); destruct (v <? nT c); reflexivity.
Qed.

Lemma tails_spec v : In v tails <-> v < nT c /\ t_outputs c v = [].
Proof.
  unfold tails. rewrite filter_In. unfold tasks. rewrite in_seq. split.
  - intros [H1 H2]. split; [lia|]. destruct (t_outputs c v); [reflexivity|discriminate].
  - intros [H1 H2]. split; [lia|]. rewrite H2. reflexivity.
Qed.

Hypothesis Hcp : forall t, In t tails -> (F t <= cp)%Q.

Lemma GoodB_init s : (forall v, rem (td s v) = R v /\ est (td s v) = E v /\ eft (td s v) = F v /\ st (td s v) = St v) -> GoodB (bwd_init s).
Proof.
  intros Hs. unfold GoodB, TouchedB.
  split; [|split; [|split; [|split]]].
  - intros v. rewrite bwd_init_td. destruct (mem v tails); [cbn; apply Hs|]. destruct (v <? nT c); cbn; apply Hs.
  - intros v Hv. rewrite bwd_init_td. destruct (mem v tails) eqn:Em.
    + left. cbn [lst lft set_lst_lft]. destruct (Hs v) as (-> & _). apply mem_In in Em.
      pose proof (Hcp v Em). destruct (HF v Hv). repeat split; lra.
    + right. apply Nat.ltb_lt in Hv. rewrite Hv. cbn. lra.
  - intros v Hv Ht. rewrite bwd_init_td.
    assert (Em : mem v tails = true) by (apply mem_In, tails_spec; split; assumption).
    rewrite Em. cbn [lst lft set_lst_lft]. destruct (Hs v) as (-> & _). split; lra.
  - intros v Hv Hnt. left. rewrite bwd_init_td.
    destruct (mem v tails) eqn:Em; [apply mem_In, tails_spec in Em; destruct Em; contradiction|].
    apply Nat.ltb_lt in Hv. rewrite Hv. cbn. lra.
  - intros v. rewrite bwd_init_td. destruct (mem v tails); [cbn; apply Hs|]. destruct (v <? nT c); cbn; apply Hs.
Qed.

Lemma all_processed_b (P : list nat) : incl tails P ->
  (forall o, In o P -> forall e, In e (t_inputs c o) -> In (fst e) P) ->
  forall n v, rank' v < n -> v < nT c -> In v P.
Proof.
  intros Hh Hcl. induction n as [|n IH]; intros v Hr Hv; [lia|].
  destruct (t_outputs c v) as [|[o k] r] eqn:Eout.
  - apply Hh. apply tails_spec. split; assumption.
  - assert (Hout : In (o, k) (t_outputs c v)) by (rewrite Eout; left; reflexivity).
    assert (Hin : In (v, k) (t_inputs c o)) by (apply (fd_mirror DAG); exact Hout).
    assert (Ho : o < nT c) by (apply (fd_range_out DAG v _ Hout)).
    destruct (rank'_ok o _ Hin) as [Hrk _]. cbn [fst] in Hrk.
    apply (Hcl o (IH o ltac:(lia) Ho) (v, k) Hin).
Qed.

Theorem backward_loop_correct s :
  (forall v, rem (td s v) = R v /\ est (td s v) = E v /\ eft (td s v) = F v /\ st (td s v) = St v) ->
  let s' := bwd_loop c (S (nT c)) (bwd_init s) tails in
  (forall v, rem (td s' v) = R v /\ est (td s' v) = E v /\ eft (td s' v) = F v /\ st (td s' v) = St v)
  /\ (forall v, v < nT c -> (lst (td s' v) == lft (td s' v) - R v)%Q /\ (E v <= lst (td s' v))%Q /\ (lft (td s' v) <= cp)%Q)
  /\ (forall v, v < nT c -> t_outputs c v = [] -> (lft (td s' v) == cp)%Q)
  /\ (forall v o, v < nT c -> In (o, FS) (t_outputs c v) -> (lft (td s' v) <= lst (td s' o))%Q)
  /\ (forall v, v < nT c -> t_outputs c v <> [] ->
        exists o, In (o, FS) (t_outputs c v) /\ (lft (td s' v) == lst (td s' o))%Q).
Proof.
  intros Hs. cbv zeta. rewrite bwd_loop_eq.
  destruct (loop_result pstate (t_inputs c) bwd_edge rank' (nT c) rank'_ok
              GoodB ReadyB SatB GoodB_step ReadyB_new ReadyB_keep SatB_new SatB_keep
              (S (nT c)) (bwd_init s) tails (GoodB_init s Hs))
    as (P & Htails & HG & HR & HP).
  { intros x Hx. pose proof (proj1 (tails_spec x) Hx) as [Hx1 Hx2].
    destruct (GoodB_init s Hs) as (_ & G2 & _).
    split; [|unfold rank'; pose proof (fd_rank_bound DAG x Hx1); lia].
    split; [exact Hx1|]. destruct (G2 x Hx1) as [[T Tc]|Hneg]; [split; assumption|].
    exfalso. rewrite bwd_init_td in Hneg. apply mem_In in Hx. rewrite Hx in Hneg. cbn in Hneg.
    destruct (Hs x) as (_ & _ & _). pose proof (Hcp x ltac:(apply mem_In; exact Hx)).
    destruct (HF x Hx1). pose proof (R_nonneg x Hx1). lra. }
  { lia. }
  set (sf := loop pstate (t_inputs c) bwd_edge (S (nT c)) (bwd_init s) tails) in *.
  destruct HG as (G1 & G2 & G3 & G4 & G5).
  assert (Hall : forall v, v < nT c -> In v P).
  { intros v Hv. apply (all_processed_b P Htails (fun o Ho e He => proj1 (HP o Ho e He)) (S (rank' v))); [lia|exact Hv]. }
  assert (Hsat : forall v o, v < nT c -> In (o, FS) (t_outputs c v) -> SatB sf o (v, FS)).
  { intros v o Hv Hout. apply (HP o); [apply Hall; apply (fd_range_out DAG v _ Hout)|apply (fd_mirror DAG); exact Hout]. }
  split; [intros v; destruct (G5 v) as (A & B & D); repeat split; try assumption; apply G1|].
  split; [|split; [|split]].
  - intros v Hv. destruct (HR v (Hall v Hv)) as (_ & [T1 T2] & Tc). repeat split; assumption.
  - intros v Hv Ht. apply (G3 v Hv Ht).
  - intros v o Hv Hout. destruct (Hsat v o Hv Hout) as [A _]. exact A.
  - intros v Hv Hnt. destruct (G4 v Hv Hnt) as [Hneg|(o & Hout & _ & Hle)].
    + destruct (HR v (Hall v Hv)) as (_ & T & _). pose proof (touched_lft_nonneg sf v Hv T). lra.
    + exists o. split; [exact Hout|]. destruct (Hsat v o Hv Hout) as [A _]. cbn [fst] in A. lra.
Qed.

End Backward.

(* a ranked network with at least one task has a task without successors *)
Lemma tails_nonempty : 0 < nT c -> tails <> [].
Proof.
  intros Hn Hempty.
  assert (G : forall n, exists v, v < nT c /\ n <= rank v).
  { induction n as [|n [v [Hv Hr]]]; [exists 0; split; [exact Hn|lia]|].
    destruct (t_outputs c v) as [|e r] eqn:Eo.
    - assert (In v tails) by (apply tails_spec; split; assumption). rewrite Hempty in H. destruct H.
    - assert (He : In e (t_outputs c v)) by (rewrite Eo; left; reflexivity).
      exists (fst e). split; [apply (fd_range_out DAG v e He)|]. pose proof (fd_rank DAG v e He). lia. }
  destruct (G (nT c)) as (v & Hv & Hr). pose proof (fd_rank_bound DAG v Hv). lia.
Qed.

Lemma pert_backward_unfold s : tails <> [] ->
  let s0 := with_td s (tab (nT c) (fun t => set_lst_lft (td s t) (-1)%Q (-1)%Q) (td s)) in
  pert_backward c s = bwd_loop c (S (nT c)) (bwd_init (max_eft s0 tails) s) tails.
Proof.
  intros Hne. cbv zeta. unfold pert_backward. fold tails.
  destruct tails as [|t0 r] eqn:Et; [congruence|]. rewrite <- Et. reflexivity.
Qed.

Lemma cpl_bwd_loop fuel s front : cpl (bwd_loop c fuel s front) = cpl s.
Proof. apply (pi_bwd_loop c _ cpl). reflexivity. Qed.

Lemma cpl_bwd_init cp s : cpl (bwd_init cp s) = cp.
Proof.
  unfold bwd_init.
  match goal with |- cpl (fold_left ?f ?l ?a) = _ =>
    assert (G : forall l' a', cpl (fold_left f l' a') = cpl a') by (induction l' as [|x l' IH]; intros a'; cbn [fold_left]; [reflexivity|rewrite IH; reflexivity]) end.
  rewrite G. reflexivity.
Qed.

(* ------------------------------------------------------------ both passes *)
Theorem update_pert_correct (tm : nat) (s : pstate) : 0 < nT c ->
  (forall v, v < nT c -> (0 <= rem (td s v))%Q) ->
  let t0 := inject_nat tm in
  let s' := update_pert c tm s in
  let ES v := est (td s' v) in let EF v := eft (td s' v) in
  let LS v := lst (td s' v) in let LF v := lft (td s' v) in
  let W v := rem (td s' v) in
  (forall v, rem (td s' v) = rem (td s v) /\ st (td s' v) = st (td s v))
  (* forward *)
  /\ (forall v, v < nT c -> (EF v == ES v + W v)%Q /\ (t0 <= ES v)%Q)
  /\ (forall v, v < nT c -> t_inputs c v = [] -> (ES v == t0)%Q)
  /\ (forall v u, v < nT c -> In (u, FS) (t_inputs c v) -> (EF u <= ES v)%Q)
  /\ (forall v, v < nT c -> t_inputs c v <> [] -> exists u, In (u, FS) (t_inputs c v) /\ (ES v == EF u)%Q)
  (* critical path length *)
  /\ (forall v, v < nT c -> (EF v <= cpl s')%Q)
  /\ (exists t, t < nT c /\ t_outputs c t = [] /\ (cpl s' == EF t)%Q)
  (* backward *)
  /\ (forall v, v < nT c -> (LS v == LF v - W v)%Q /\ (ES v <= LS v)%Q)
  /\ (forall v, v < nT c -> t_outputs c v = [] -> (LF v == cpl s')%Q)
  /\ (forall v o, v < nT c -> In (o, FS) (t_outputs c v) -> (LF v <= LS o)%Q)
  /\ (forall v, v < nT c -> t_outputs c v <> [] -> exists o, In (o, FS) (t_outputs c v) /\ (LF v == LS o)%Q).
Proof.
  intros Hn Hrem. cbv zeta. unfold update_pert.
  set (t0 := inject_nat tm).
  set (R := fun v => rem (td s v)).
  destruct (forward_correct t0 R Hrem s (fun v => eq_refl)) as (F1 & F2 & F3 & F4 & F5).
  set (s1 := pert_forward c t0 s) in *.
  assert (Hst1 : forall v, st (td s1 v) = st (td s v)).
  { intros v. unfold s1. rewrite pert_forward_unfold.
    assert (G : forall fuel x front, st (td (loop pstate (t_outputs c) fwd_edge fuel x front) v) = st (td x v)).
    { intros fuel x front. rewrite <- fwd_loop_eq. revert x front.
      induction fuel as [|f IH]; intros x front; cbn [fwd_loop]; [reflexivity|].
      destruct front as [|y r]; [reflexivity|]. destruct (fwd_round c x (y :: r)) as [x' nx] eqn:Er. rewrite IH.
      assert (Hrd : forall l acc, st (td (fst (fold_left (fun (acc : pstate * list nat) src =>
                      fold_left (fun (a2 : pstate * list nat) e => (fwd_edge (fst a2) src e, dedup_add (fst e) (snd a2))) (t_outputs c src) acc) l acc)) v)
                    = st (td (fst acc) v)).
      { induction l as [|src l IHl]; intros acc; cbn [fold_left]; [reflexivity|]. rewrite IHl.
        generalize (t_outputs c src). intros es. revert acc. induction es as [|e es IHe]; intros acc; cbn [fold_left]; [reflexivity|].
        rewrite IHe. cbn [fst]. unfold fwd_edge. destruct e as [n k]. cbn [fst snd].
        destruct k; cbv zeta; match goal with |- context [if ?b then _ else _] => destruct b end; cbn [td with_td];
          try reflexivity; rewrite upd_eq; destruct (Nat.eqb v n) eqn:Ev; try reflexivity; apply Nat.eqb_eq in Ev; subst; reflexivity. }
      change x' with (fst (x', nx)). rewrite <- Er. unfold fwd_round. rewrite Hrd. reflexivity. }
    rewrite G. unfold fwd_init. cbn [td with_td]. rewrite tab_spec. destruct (v <? nT c); [|reflexivity].
    destruct (t_inputs c v); reflexivity. }
  pose proof (tails_nonempty Hn) as Hne.
  rewrite (pert_backward_unfold s1 Hne).
  set (s0 := with_td s1 (tab (nT c) (fun t => set_lst_lft (td s1 t) (-1)%Q (-1)%Q) (td s1))).
  set (cp := max_eft s0 tails).
  set (E := fun v => est (td s1 v)). set (F := fun v => eft (td s1 v)). set (St := fun v => st (td s1 v)).
  assert (Eft0 : forall t, eft (td s0 t) = F t).
  { intros t. unfold s0. cbn [td with_td]. rewrite tab_spec. destruct (t <? nT c); reflexivity. }
  destruct (max_eft_spec s0 tails Hne) as [M1 (tmax & Htmax & M2)].
  assert (HFE : forall v, v < nT c -> (F v == E v + R v)%Q /\ (t0 <= E v)%Q) by (intros v Hv; apply (F2 v Hv)).
  assert (Ht0 : (0 <= t0)%Q).
  { unfold t0, inject_nat. change 0%Q with (inject_Z 0). rewrite <- Zle_Qle. lia. }
  destruct (backward_loop_correct t0 cp E F R St Hrem Ht0 HFE (fun v u Hv Hin => F4 v u Hv Hin)
              (fun t Ht => eq_ind _ (fun x => (x <= cp)%Q) (M1 t Ht) _ (Eft0 t)) s1
              (fun v => conj (F1 v) (conj eq_refl (conj eq_refl eq_refl))))
    as (B0 & B1 & B2 & B3 & B4).
  set (s2 := bwd_loop c (S (nT c)) (bwd_init cp s1) tails) in *.
  assert (Ecp : cpl s2 = cp) by (unfold s2; rewrite cpl_bwd_loop; apply cpl_bwd_init).
  rewrite Ecp.
  split; [intros v; destruct (B0 v) as (A & _ & _ & D); split; [rewrite A; reflexivity|rewrite D; apply Hst1]|].
  assert (Rw : forall v, rem (td s2 v) = R v) by (intros v; apply (B0 v)).
  assert (Ew : forall v, est (td s2 v) = E v) by (intros v; apply (B0 v)).
  assert (Fw : forall v, eft (td s2 v) = F v) by (intros v; apply (B0 v)).
  split; [intros v Hv; rewrite Fw, Ew, Rw; apply (HFE v Hv)|].
  split; [intros v Hv Hh; rewrite Ew; apply (F3 v Hv Hh)|].
  split; [intros v u Hv Hin; rewrite Fw, Ew; apply (F4 v u Hv Hin)|].
  split; [intros v Hv Hnh; destruct (F5 v Hv Hnh) as (u & Hu & Eq); exists u; split; [exact Hu|rewrite Fw, Ew; exact Eq]|].
  split.
  { intros v Hv. rewrite Fw. destruct (B1 v Hv) as (A & B & D). destruct (HFE v Hv). lra. }
  split.
  { exists tmax. apply tails_spec in Htmax. destruct Htmax as [T1 T2]. split; [exact T1|]. split; [exact T2|].
    rewrite Fw, <- Eft0. exact M2. }
  split; [intros v Hv; rewrite Rw, Ew; destruct (B1 v Hv) as (A & B & _); split; assumption|].
  split; [exact B2|]. split; [exact B3|exact B4].
Qed.

(* slack: never negative; zero at the tail that defines the critical path
   length, and every zero-slack task with predecessors has a zero-slack
   predecessor that finishes exactly when it starts: a critical path *)
Theorem zero_slack_chain (tm : nat) (s : pstate) : 0 < nT c ->
  (forall v, v < nT c -> (0 <= rem (td s v))%Q) ->
  let s' := update_pert c tm s in
  (forall v, v < nT c -> (est (td s' v) <= lst (td s' v))%Q)
  /\ (exists t, t < nT c /\ t_outputs c t = [] /\ (lst (td s' t) == est (td s' t))%Q /\ (eft (td s' t) == cpl s')%Q)
  /\ (forall v, v < nT c -> t_inputs c v <> [] -> (lst (td s' v) == est (td s' v))%Q ->
        exists u, In (u, FS) (t_inputs c v) /\ (eft (td s' u) == est (td s' v))%Q /\ (lst (td s' u) == est (td s' u))%Q).
Proof.
  intros Hn Hrem. cbv zeta.
  destruct (update_pert_correct tm s Hn Hrem) as (_ & A1 & _ & A3 & A4 & _ & (t & Ht & Htail & Hcp) & B1 & B2 & B3 & _).
  cbv zeta in *. set (s' := update_pert c tm s) in *.
  split; [intros v Hv; apply (B1 v Hv)|]. split.
  - exists t. split; [exact Ht|]. split; [exact Htail|].
    destruct (B1 t Ht) as [L1 L2]. pose proof (B2 t Ht Htail). destruct (A1 t Ht) as [E1 _]. split; lra.
  - intros v Hv Hnh Hz. destruct (A4 v Hv Hnh) as (u & Hin & Eq).
    exists u. split; [exact Hin|]. split; [lra|].
    assert (Hu : u < nT c) by (apply (fd_range_in DAG v _ Hin)).
    assert (Hout : In (v, FS) (t_outputs c u)) by (apply (fd_mirror DAG); exact Hin).
    pose proof (B3 u v Hu Hout). destruct (B1 u Hu) as [L1 L2]. destruct (A1 u Hu) as [E1 _]. lra.
Qed.

End C12.

(* C08 / C17: the logs of a backward run -- one entry per step, and after the
   reversal a finish-to-start predecessor is logged WORKING only before its
   successor. *)
From Coq Require Import List ZArith QArith Bool Arith Lia.
From PV Require Import Model.Types Model.Sim Model.LogEdit Model.RevLog Model.Backward Model.BackwardRun
  Proofs.Base Proofs.RunLemmas Proofs.C01Proof Proofs.LogsProof Proofs.C0708Proof Proofs.LogOrder Proofs.RevLogProof.
Import ListNotations.
Open Scope nat_scope.

Section C17Run.
Variable c : cfg.
Variable due : bool.

Notation c' := (back_cfg c due).

Lemma nT_back : nT c <= nT c'.
Proof. cbn. lia. Qed.

(* the inner run's alignment, read with the project's own configuration *)
Lemma LogsAre_back hc h s : LogsAre c' hc h s -> LogsAre c hc h s.
Proof.
  intros (H1 & H2 & H3 & H4 & H5 & H6 & H7 & H8).
  split; [intros t Ht; apply H1; pose proof nT_back; lia|].
  split; [exact H2|]. split; [exact H3|]. split; [exact H4|]. split; [exact H5|]. split; [exact H6|]. split; [exact H7|exact H8].
Qed.

Theorem backward_aligned rev o e : o_init_log o = true ->
  let r := backward_simulate c due rev o e in
  exists h, length h = time (snd r) /\ LogsAre c h h (snd r).
Proof.
  intros Hl. cbv zeta. unfold backward_simulate.
  set (s1 := with_helpers c c' (snd e)).
  destruct (C08_simulate_fresh c' o s1 Hl) as [Hlen HL]. cbv zeta in *.
  set (h := perf_rows o (snd (simulate c' o s1))) in *.
  destruct rev.
  - exists (rev h). split; [rewrite rev_length; exact Hlen|]. apply LogsAre_reverse. apply LogsAre_back. exact HL.
  - exists h. split; [exact Hlen|apply LogsAre_back; exact HL].
Qed.

Theorem backward_lengths rev o e : o_init_log o = true -> AllLengths c (snd (backward_simulate c due rev o e)).
Proof.
  intros Hl. destruct (backward_aligned rev o e Hl) as (h & H1 & H2). eapply LogsAre_lengths; eassumption.
Qed.

(* (d) with the logs reversed: along an original FS edge p -> i (both real
   tasks) p is logged WORKING only at steps strictly before i *)
Theorem backward_fs_order o e p i : o_init_state o = true -> o_init_log o = true ->
  p < nT c -> i < nT c -> In (i, FS) (t_outputs c p) ->
  let r := snd (backward_simulate c due true o e) in
  forall j k, nth_error (l_st (tl r p)) j = Some TWorking -> nth_error (l_st (tl r i)) k = Some TWorking -> j < k.
Proof.
  intros Hs Hl Hp Hi Hedge. cbv zeta. unfold backward_simulate.
  set (s1 := with_helpers c c' (snd e)).
  set (s2 := fst (simulate c' o s1)).
  assert (Hin : In (i, FS) (t_inputs c' p)).
  { cbn [t_inputs back_cfg]. apply Nat.ltb_lt in Hp. rewrite Hp. apply in_or_app. left. exact Hedge. }
  pose proof (fs_log_order c' o s1 (or_introl Hs) Hl p i ltac:(pose proof nT_back; lia) ltac:(pose proof nT_back; lia) Hin) as Hord.
  fold s2 in Hord.
  assert (AL : AllLengths c' s2).
  { destruct (C08_simulate_fresh c' o s1 Hl) as [Hlen HL]. eapply LogsAre_lengths; eassumption. }
  destruct AL as (AT & _).
  assert (Hp' : p < nT c') by (pose proof nT_back; lia). assert (Hi' : i < nT c') by (pose proof nT_back; lia).
  destruct (AT p Hp') as (Lp & _). destruct (AT i Hi') as (Li & _).
  unfold reverse_log. cbn [snd]. unfold edit_logs. cbn [tl]. rewrite !tab_spec.
  apply Nat.ltb_lt in Hp, Hi. rewrite Hp, Hi. unfold rev_tlog. cbn [l_st].
  apply order_reversed; [congruence|exact Hord].
Qed.

End C17Run.

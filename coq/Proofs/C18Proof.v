(* C18: editing absence steps out of / into finished logs. *)
From Coq Require Import List ZArith QArith Bool Arith Lia Permutation.
From PV Require Import Model.Types Model.Sim Model.LogEdit Proofs.Base Proofs.SortProof Proofs.C0708Proof.
Import ListNotations.
Open Scope nat_scope.

(* ------------------------------------------------------------ lists *)
Lemma remove_at_length {A} k (l : list A) : k < length l -> length (remove_at k l) = length l - 1.
Proof.
  revert k; induction l as [|x l IH]; intros k H; [cbn in H; lia|].
  destruct k; cbn; [lia|]. cbn in H. rewrite IH by lia. destruct (length l); lia.
Qed.
Lemma insert_at_length {A} k v (l : list A) : length (insert_at k v l) = S (length l).
Proof.
  revert k; induction l as [|x l IH]; intros k; destruct k; cbn; try reflexivity. rewrite IH. reflexivity.
Qed.
Lemma remove_insert_at {A} k v (l : list A) : k <= length l -> remove_at k (insert_at k v l) = l.
Proof.
  revert k; induction l as [|x l IH]; intros k H; destruct k; cbn; try reflexivity.
  - cbn in H. lia.
  - rewrite IH by (cbn in H; lia). reflexivity.
Qed.

Lemma rem_ins_one {A} mk (l : list A) k : rem_one (ins_one mk l k) k = l.
Proof.
  unfold ins_one, rem_one. destruct (k <? length l) eqn:E.
  - rewrite insert_at_length. apply Nat.ltb_lt in E.
    assert (E' : (k <? S (length l)) = true) by (apply Nat.ltb_lt; lia). rewrite E'.
    apply remove_insert_at. lia.
  - rewrite E. reflexivity.
Qed.

(* removing the steps again (in descending order) undoes their insertion *)
Theorem rem_ins_cancel {A} mk steps : forall l : list A, rem_seq steps (ins_seq mk steps l) = l.
Proof.
  unfold rem_seq, ins_seq.
  induction steps as [|k steps IH] using rev_ind; intros l; [reflexivity|].
  rewrite rev_app_distr. cbn [rev app fold_left]. rewrite fold_left_app. cbn [fold_left].
  rewrite rem_ins_one. apply IH.
Qed.

(* the new length only depends on the old length and the steps *)
Definition len_ins (steps : list nat) (n : nat) : nat := fold_left (fun n k => if k <? n then S n else n) steps n.
Definition len_rem (steps : list nat) (n : nat) : nat := fold_left (fun n k => if k <? n then n - 1 else n) (rev steps) n.

Lemma ins_seq_length {A} mk steps : forall l : list A, length (ins_seq mk steps l) = len_ins steps (length l).
Proof.
  unfold ins_seq, len_ins. induction steps as [|k steps IH]; intros l; cbn [fold_left]; [reflexivity|].
  rewrite IH. f_equal. unfold ins_one. destruct (k <? length l); [apply insert_at_length|reflexivity].
Qed.
Lemma rem_seq_length {A} steps : forall l : list A, length (rem_seq steps l) = len_rem steps (length l).
Proof.
  unfold rem_seq, len_rem. generalize (rev steps) as r. induction r as [|k r IH]; intros l; cbn [fold_left]; [reflexivity|].
  rewrite IH. f_equal. unfold rem_one. destruct (k <? length l) eqn:E; [|reflexivity].
  apply remove_at_length. apply Nat.ltb_lt. exact E.
Qed.
Lemma len_ins_ge steps : forall n, n <= len_ins steps n.
Proof.
  unfold len_ins. induction steps as [|k steps IH]; intros n; cbn [fold_left]; [lia|].
  destruct (k <? n); [specialize (IH (S n)); lia|apply IH].
Qed.
Lemma len_rem_le steps : forall n, len_rem steps n <= n.
Proof.
  unfold len_rem. generalize (rev steps) as r. induction r as [|k r IH]; intros n; cbn [fold_left]; [lia|].
  destruct (k <? n); [specialize (IH (n - 1)); lia|apply IH].
Qed.

(* ------------------------------------------------------------ records *)
Section Records.
Variable c : cfg.

Definition tlog_len (n : nat) (g : tlog) : Prop :=
  length (l_st g) = n /\ length (l_rem g) = n /\ length (l_aw g) = n /\ length (l_af g) = n.
Definition rlog_len (n : nat) (g : rlog) : Prop :=
  length (rl_st g) = n /\ length (rl_cost g) = n /\ length (rl_asg g) = n.
Definition clog_len (n : nat) (g : clog) : Prop := length (cl_st g) = n /\ length (cl_pw g) = n.

Lemma task_insert_len t steps : forall g n, tlog_len n g -> tlog_len (len_ins steps n) (task_insert c t steps g).
Proof.
  unfold task_insert, len_ins. induction steps as [|k steps IH]; intros g n H; cbn [fold_left]; [exact H|].
  destruct H as (H1 & H2 & H3 & H4). rewrite H1. destruct (k <? n); [|apply IH; repeat split; assumption].
  apply IH. unfold tlog_len. cbn [l_st l_rem l_aw l_af]. rewrite !insert_at_length. repeat split; congruence.
Qed.
Lemma task_remove_len steps : forall g n, tlog_len n g -> tlog_len (len_rem steps n) (task_remove steps g).
Proof.
  unfold task_remove, len_rem. generalize (rev steps) as r. induction r as [|k r IH]; intros g n H; cbn [fold_left]; [exact H|].
  destruct H as (H1 & H2 & H3 & H4). rewrite H1. destruct (k <? n) eqn:E; [|apply IH; repeat split; assumption].
  apply Nat.ltb_lt in E. apply IH. unfold tlog_len. cbn [l_st l_rem l_aw l_af].
  rewrite !remove_at_length by lia. repeat split; congruence.
Qed.
Lemma res_insert_len steps : forall g n, rlog_len n g -> rlog_len (len_ins steps n) (res_insert steps g).
Proof.
  unfold res_insert, len_ins. induction steps as [|k steps IH]; intros g n H; cbn [fold_left]; [exact H|].
  destruct H as (H1 & H2 & H3). rewrite H1. destruct (k <? n); [|apply IH; repeat split; assumption].
  apply IH. unfold rlog_len. cbn [rl_st rl_cost rl_asg]. rewrite !insert_at_length. repeat split; congruence.
Qed.
Lemma res_remove_len steps : forall g n, rlog_len n g -> rlog_len (len_rem steps n) (res_remove steps g).
Proof.
  unfold res_remove, len_rem. generalize (rev steps) as r. induction r as [|k r IH]; intros g n H; cbn [fold_left]; [exact H|].
  destruct H as (H1 & H2 & H3). rewrite H1. destruct (k <? n) eqn:E; [|apply IH; repeat split; assumption].
  apply Nat.ltb_lt in E. apply IH. unfold rlog_len. cbn [rl_st rl_cost rl_asg].
  rewrite !remove_at_length by lia. repeat split; congruence.
Qed.
Lemma comp_insert_len steps : forall g n, clog_len n g -> clog_len (len_ins steps n) (comp_insert steps g).
Proof.
  unfold comp_insert, len_ins. induction steps as [|k steps IH]; intros g n H; cbn [fold_left]; [exact H|].
  destruct H as (H1 & H2). rewrite H1. destruct (k <? n); [|apply IH; split; assumption].
  apply IH. unfold clog_len. cbn [cl_st cl_pw]. rewrite !insert_at_length. split; congruence.
Qed.
Lemma comp_remove_len steps : forall g n, clog_len n g -> clog_len (len_rem steps n) (comp_remove steps g).
Proof.
  unfold comp_remove, len_rem. generalize (rev steps) as r. induction r as [|k r IH]; intros g n H; cbn [fold_left]; [exact H|].
  destruct H as (H1 & H2). rewrite H1. destruct (k <? n) eqn:E; [|apply IH; split; assumption].
  apply Nat.ltb_lt in E. apply IH. unfold clog_len. cbn [cl_st cl_pw].
  rewrite !remove_at_length by lia. split; congruence.
Qed.

(* restoring: remove after insert gives the record back (logs of equal length) *)
Lemma task_rem_ins t steps : forall g n, tlog_len n g -> task_remove steps (task_insert c t steps g) = g.
Proof.
  unfold task_remove, task_insert.
  induction steps as [|k steps IH] using rev_ind; intros g n H; [reflexivity|].
  rewrite rev_app_distr. cbn [rev app fold_left]. rewrite fold_left_app. cbn [fold_left].
  set (g' := fold_left _ steps g).
  assert (H' : tlog_len (len_ins steps n) g') by (apply (task_insert_len t steps g n H)).
  destruct H' as (H1 & H2 & H3 & H4).
  destruct (k <? length (l_st g')) eqn:E.
  - cbn [l_st]. rewrite insert_at_length. apply Nat.ltb_lt in E.
    assert (E' : (k <? S (length (l_st g'))) = true) by (apply Nat.ltb_lt; lia). rewrite E'.
    cbn [l_st l_rem l_aw l_af]. rewrite !remove_insert_at by lia.
    replace (mkTLog (l_st g') (l_rem g') (l_aw g') (l_af g')) with g' by (destruct g'; reflexivity).
    apply (IH g n H).
  - rewrite E. apply (IH g n H).
Qed.
Lemma res_rem_ins steps : forall g n, rlog_len n g -> res_remove steps (res_insert steps g) = g.
Proof.
  unfold res_remove, res_insert.
  induction steps as [|k steps IH] using rev_ind; intros g n H; [reflexivity|].
  rewrite rev_app_distr. cbn [rev app fold_left]. rewrite fold_left_app. cbn [fold_left].
  set (g' := fold_left _ steps g).
  assert (H' : rlog_len (len_ins steps n) g') by (apply (res_insert_len steps g n H)).
  destruct H' as (H1 & H2 & H3).
  destruct (k <? length (rl_st g')) eqn:E.
  - cbn [rl_st]. rewrite insert_at_length. apply Nat.ltb_lt in E.
    assert (E' : (k <? S (length (rl_st g'))) = true) by (apply Nat.ltb_lt; lia). rewrite E'.
    cbn [rl_st rl_cost rl_asg]. rewrite !remove_insert_at by lia.
    replace (mkRLog (rl_st g') (rl_cost g') (rl_asg g')) with g' by (destruct g'; reflexivity).
    apply (IH g n H).
  - rewrite E. apply (IH g n H).
Qed.
Lemma comp_rem_ins steps : forall g n, clog_len n g -> comp_remove steps (comp_insert steps g) = g.
Proof.
  unfold comp_remove, comp_insert.
  induction steps as [|k steps IH] using rev_ind; intros g n H; [reflexivity|].
  rewrite rev_app_distr. cbn [rev app fold_left]. rewrite fold_left_app. cbn [fold_left].
  set (g' := fold_left _ steps g).
  assert (H' : clog_len (len_ins steps n) g') by (apply (comp_insert_len steps g n H)).
  destruct H' as (H1 & H2).
  destruct (k <? length (cl_st g')) eqn:E.
  - cbn [cl_st]. rewrite insert_at_length. apply Nat.ltb_lt in E.
    assert (E' : (k <? S (length (cl_st g'))) = true) by (apply Nat.ltb_lt; lia). rewrite E'.
    cbn [cl_st cl_pw]. rewrite !remove_insert_at by lia.
    replace (mkCLog (cl_st g') (cl_pw g')) with g' by (destruct g'; reflexivity).
    apply (IH g n H).
  - rewrite E. apply (IH g n H).
Qed.
Lemma wp_rem_ins steps g : wp_remove steps (wp_insert steps g) = g.
Proof. unfold wp_remove, wp_insert. cbn [wl_cost wl_pc]. rewrite !rem_ins_cancel. destruct g; reflexivity. Qed.

(* ------------------------------------------------------------ project level *)
(* (b) both editors keep all logs aligned and set project.time to the common length *)
Definition Lens (s : pstate) (n : nat) : Prop :=
  (forall t, t < nT c -> tlog_len n (tl s t)) /\ (forall w, w < nW c -> rlog_len n (wl s w))
  /\ (forall f, f < nF c -> rlog_len n (fl s f)) /\ (forall k, k < nC c -> clog_len n (cl s k))
  /\ (forall p, p < nWP c -> length (wl_cost (wpl s p)) = n /\ length (wl_pc (wpl s p)) = n)
  /\ (forall g, g < nTeam c -> length (teaml s g) = n) /\ length (orgl s) = n /\ length (costl s) = n.

Lemma AllLengths_Lens s : AllLengths c s <-> Lens s (time s).
Proof.
  unfold AllLengths, Lens, tlog_len, rlog_len, clog_len. cbv zeta. tauto.
Qed.

Theorem insert_keeps_aligned l ab s : Lens s (time s) ->
  let s' := snd (insert_absence c l (ab, s)) in Lens s' (time s').
Proof.
  intros (H1 & H2 & H3 & H4 & H5 & H6 & H7 & H8). cbv zeta. unfold insert_absence. cbn [snd].
  set (steps := stable_sort nat Nat.leb (new_steps ab [] l)).
  set (n := time s) in *.
  assert (Et : n + inserted_count steps (costl s) = len_ins steps n).
  { unfold inserted_count, cost_insert. rewrite ins_seq_length, H8. pose proof (len_ins_ge steps n). lia. }
  unfold edit_logs. cbn [time]. rewrite Et. unfold Lens. cbn [tl wl fl cl wpl teaml orgl costl].
  refine (conj _ (conj _ (conj _ (conj _ (conj _ (conj _ (conj _ _))))))).
  - intros t Ht. rewrite tab_spec. pose proof Ht as Ht'. apply Nat.ltb_lt in Ht'. rewrite Ht'. apply task_insert_len, H1, Ht.
  - intros w Hw. rewrite tab_spec. pose proof Hw as Hw'. apply Nat.ltb_lt in Hw'. rewrite Hw'. apply res_insert_len, H2, Hw.
  - intros f Hf. rewrite tab_spec. pose proof Hf as Hf'. apply Nat.ltb_lt in Hf'. rewrite Hf'. apply res_insert_len, H3, Hf.
  - intros k Hk. rewrite tab_spec. pose proof Hk as Hk'. apply Nat.ltb_lt in Hk'. rewrite Hk'. apply comp_insert_len, H4, Hk.
  - intros p Hp. rewrite tab_spec. pose proof Hp as Hp'. apply Nat.ltb_lt in Hp'. rewrite Hp'. unfold wp_insert. cbn [wl_cost wl_pc].
    rewrite !ins_seq_length. destruct (H5 p Hp) as [E1 E2]. rewrite E1, E2. split; reflexivity.
  - intros g Hg. rewrite tab_spec. pose proof Hg as Hg'. apply Nat.ltb_lt in Hg'. rewrite Hg'.
    unfold cost_insert. rewrite ins_seq_length, (H6 g Hg). reflexivity.
  - unfold cost_insert. rewrite ins_seq_length, H7. reflexivity.
  - unfold cost_insert. rewrite ins_seq_length, H8. reflexivity.
Qed.

Theorem remove_keeps_aligned ab s : Lens s (time s) ->
  let s' := snd (remove_absence c (ab, s)) in Lens s' (time s').
Proof.
  intros (H1 & H2 & H3 & H4 & H5 & H6 & H7 & H8). cbv zeta. unfold remove_absence. cbn [snd].
  set (steps := sorted_set ab).
  set (n := time s) in *.
  assert (Et : n - removed_count steps (costl s) = len_rem steps n).
  { unfold removed_count. rewrite rem_seq_length, H8. pose proof (len_rem_le steps n). lia. }
  unfold edit_logs. cbn [time]. rewrite Et. unfold Lens. cbn [tl wl fl cl wpl teaml orgl costl].
  refine (conj _ (conj _ (conj _ (conj _ (conj _ (conj _ (conj _ _))))))).
  - intros t Ht. rewrite tab_spec. pose proof Ht as Ht'. apply Nat.ltb_lt in Ht'. rewrite Ht'. apply task_remove_len, H1, Ht.
  - intros w Hw. rewrite tab_spec. pose proof Hw as Hw'. apply Nat.ltb_lt in Hw'. rewrite Hw'. apply res_remove_len, H2, Hw.
  - intros f Hf. rewrite tab_spec. pose proof Hf as Hf'. apply Nat.ltb_lt in Hf'. rewrite Hf'. apply res_remove_len, H3, Hf.
  - intros k Hk. rewrite tab_spec. pose proof Hk as Hk'. apply Nat.ltb_lt in Hk'. rewrite Hk'. apply comp_remove_len, H4, Hk.
  - intros p Hp. rewrite tab_spec. pose proof Hp as Hp'. apply Nat.ltb_lt in Hp'. rewrite Hp'. unfold wp_remove. cbn [wl_cost wl_pc].
    rewrite !rem_seq_length. destruct (H5 p Hp) as [E1 E2]. rewrite E1, E2. split; reflexivity.
  - intros g Hg. rewrite tab_spec. pose proof Hg as Hg'. apply Nat.ltb_lt in Hg'. rewrite Hg'.
    unfold cost_remove. rewrite rem_seq_length, (H6 g Hg). reflexivity.
  - unfold cost_remove. rewrite rem_seq_length, H7. reflexivity.
  - unfold cost_remove. rewrite rem_seq_length, H8. reflexivity.
Qed.

(* every log changes by the same number of entries *)
Theorem insert_same_delta l ab s : Lens s (time s) ->
  let s' := snd (insert_absence c l (ab, s)) in
  Lens s' (len_ins (stable_sort nat Nat.leb (new_steps ab [] l)) (time s)).
Proof.
  intros H. pose proof (insert_keeps_aligned l ab s H) as R. cbv zeta in *.
  assert (E : time (snd (insert_absence c l (ab, s))) = len_ins (stable_sort nat Nat.leb (new_steps ab [] l)) (time s)).
  { destruct H as (_ & _ & _ & _ & _ & _ & _ & H8). unfold insert_absence, edit_logs. cbn [snd time].
    unfold inserted_count, cost_insert. rewrite ins_seq_length, H8.
    pose proof (len_ins_ge (stable_sort nat Nat.leb (new_steps ab [] l)) (time s)). lia. }
  rewrite <- E. exact R.
Qed.

(* (d) inserting steps into an absence-free aligned result and removing them
   restores every log, project.time and the (empty) absence list *)
Lemma new_steps_nodup cur l : forall acc, NoDup acc -> NoDup (new_steps cur acc l).
Proof.
  induction l as [|x l IH]; intros acc H; cbn [new_steps]; [exact H|].
  destruct (mem x cur || mem x acc) eqn:E; [apply IH; exact H|].
  apply IH. apply NoDup_app_snoc; [exact H|].
  apply orb_false_iff in E. destruct E as [_ E]. intros Hin. apply mem_In in Hin. congruence.
Qed.

Theorem insert_then_remove_restores l s : Lens s (time s) ->
  let e := remove_absence c (insert_absence c l ([], s)) in
  fst e = [] /\ time (snd e) = time s
  /\ (forall t, t < nT c -> tl (snd e) t = tl s t) /\ (forall w, w < nW c -> wl (snd e) w = wl s w)
  /\ (forall f, f < nF c -> fl (snd e) f = fl s f) /\ (forall k, k < nC c -> cl (snd e) k = cl s k)
  /\ (forall p, p < nWP c -> wpl (snd e) p = wpl s p) /\ (forall g, g < nTeam c -> teaml (snd e) g = teaml s g)
  /\ orgl (snd e) = orgl s /\ costl (snd e) = costl s.
Proof.
  intros (H1 & H2 & H3 & H4 & H5 & H6 & H7 & H8). cbv zeta.
  unfold insert_absence. cbn [app].
  set (nw := new_steps [] [] l).
  assert (Hnd : NoDup nw) by (apply new_steps_nodup; constructor).
  unfold remove_absence.
  assert (Es : sorted_set nw = stable_sort nat Nat.leb nw).
  { unfold sorted_set. rewrite (nodup_fixed_point Nat.eq_dec Hnd). reflexivity. }
  rewrite Es. set (steps := stable_sort nat Nat.leb nw).
  cbn [fst snd]. split; [reflexivity|].
  unfold edit_logs. cbn [time tl wl fl cl wpl teaml orgl costl].
  split.
  { unfold removed_count, inserted_count, cost_insert, cost_remove.
    rewrite rem_ins_cancel. rewrite ins_seq_length, H8.
    pose proof (len_ins_ge steps (time s)). lia. }
  refine (conj _ (conj _ (conj _ (conj _ (conj _ (conj _ (conj _ _))))))).
  - intros t Ht. rewrite !tab_spec. pose proof Ht as Ht'. apply Nat.ltb_lt in Ht'. rewrite Ht'.
    apply (task_rem_ins t steps _ (time s)). apply H1. exact Ht.
  - intros w Hw. rewrite !tab_spec. pose proof Hw as Hw'. apply Nat.ltb_lt in Hw'. rewrite Hw'.
    apply (res_rem_ins steps _ (time s)). apply H2. exact Hw.
  - intros f Hf. rewrite !tab_spec. pose proof Hf as Hf'. apply Nat.ltb_lt in Hf'. rewrite Hf'.
    apply (res_rem_ins steps _ (time s)). apply H3. exact Hf.
  - intros k Hk. rewrite !tab_spec. pose proof Hk as Hk'. apply Nat.ltb_lt in Hk'. rewrite Hk'.
    apply (comp_rem_ins steps _ (time s)). apply H4. exact Hk.
  - intros p Hp. rewrite !tab_spec. pose proof Hp as Hp'. apply Nat.ltb_lt in Hp'. rewrite Hp'. apply wp_rem_ins.
  - intros g Hg. rewrite !tab_spec. pose proof Hg as Hg'. apply Nat.ltb_lt in Hg'. rewrite Hg'.
    unfold cost_remove, cost_insert. apply rem_ins_cancel.
  - unfold cost_remove, cost_insert. apply rem_ins_cancel.
  - unfold cost_remove, cost_insert. apply rem_ins_cancel.
Qed.

(* (c) an inserted step is a no-work, zero-cost step *)
Lemma nth_insert_at_same {A} k v (l : list A) d : k <= length l -> nth k (insert_at k v l) d = v.
Proof.
  revert k; induction l as [|x l IH]; intros k H; destruct k; cbn; try reflexivity; cbn in H; [lia|apply IH; lia].
Qed.
Lemma nth_insert_at_lt {A} j k v (l : list A) d : j < k -> k <= length l -> nth j (insert_at k v l) d = nth j l d.
Proof.
  revert j k; induction l as [|x l IH]; intros j k H Hk.
  - cbn in Hk. lia.
  - destruct k; [lia|]. destruct j; cbn; [reflexivity|]. apply IH; cbn in Hk; lia.
Qed.

Theorem inserted_step_is_dead (mk : nat -> list Q -> Q) k (l : list Q) :
  k < length l ->
  nth k (ins_one (fun _ _ => 0%Q) l k) 1%Q = 0%Q
  /\ (forall d0, nth k (ins_one (fun k l => prev d0 k l) l k) d0 = prev d0 k l).
Proof.
  intros H. unfold ins_one. apply Nat.ltb_lt in H. rewrite H. apply Nat.ltb_lt in H.
  split; [apply nth_insert_at_same; lia|]. intros d0. apply nth_insert_at_same. lia.
Qed.

Theorem later_insertions_keep_earlier_entries {A} (mk : nat -> list A -> A) (l : list A) j k d :
  j < k -> nth j (ins_one mk l k) d = nth j l d.
Proof.
  intros H. unfold ins_one. destruct (k <? length l) eqn:E; [|reflexivity].
  apply Nat.ltb_lt in E. apply nth_insert_at_lt; [exact H|lia].
Qed.

End Records.

(* Frame facts: which phases can change which live task fields. *)
From Coq Require Import List ZArith QArith Bool Arith Lia.
From PV Require Import Model.Types Model.Sim Proofs.Base.
Import ListNotations.
Open Scope nat_scope.

Section Frames.
Variable c : cfg.

(* pointwise relations between two project states on task fields *)
Definition same_st (s s' : pstate) : Prop := forall t, st (td s t) = st (td s' t).
Definition same_rem (s s' : pstate) : Prop := forall t, rem (td s t) = rem (td s' t).
Definition same_alloc (s s' : pstate) : Prop :=
  forall t, aw (td s t) = aw (td s' t) /\ af (td s t) = af (td s' t).

Lemma same_st_refl s : same_st s s. Proof. intros t; reflexivity. Qed.
Lemma same_st_trans a b d : same_st a b -> same_st b d -> same_st a d.
Proof. intros H1 H2 t. rewrite H1. apply H2. Qed.
Lemma same_rem_refl s : same_rem s s. Proof. intros t; reflexivity. Qed.
Lemma same_rem_trans a b d : same_rem a b -> same_rem b d -> same_rem a d.
Proof. intros H1 H2 t. rewrite H1. apply H2. Qed.

Lemma same_st_td s s' : td s' = td s -> same_st s s'.
Proof. intros E t. rewrite E. reflexivity. Qed.
Lemma same_rem_td s s' : td s' = td s -> same_rem s s'.
Proof. intros E t. rewrite E. reflexivity. Qed.

(* ---------------------------------------------------- components, placement *)
Lemma td_product_check_state s : td (product_check_state c s) = td s.
Proof. reflexivity. Qed.

Lemma td_detach_one s k : td (detach_one s k) = td s.
Proof. unfold detach_one. destruct (pw (cd s k)); reflexivity. Qed.

Lemma td_detach_tree s k : td (detach_tree c s k) = td s.
Proof.
  unfold detach_tree. apply (fold_left_inv (fun x => td x = td s)); [reflexivity|].
  intros x b Hx. rewrite td_detach_one. exact Hx.
Qed.

Lemma td_check_removing o s : td (check_removing c o s) = td s.
Proof.
  unfold check_removing. apply (fold_left_inv (fun x => td x = td s)); [reflexivity|].
  intros x b Hx. rewrite td_detach_tree. exact Hx.
Qed.

Lemma td_attach_tree s p k : td (attach_tree c s p k) = td s.
Proof. reflexivity. Qed.

Lemma td_try_place s moved t k cands : td (fst (try_place c s moved t k cands)) = td s.
Proof.
  induction cands as [|p r IH]; cbn [try_place]; [reflexivity|].
  match goal with |- context [if ?b then _ else _] => destruct b end.
  - cbn [fst]. rewrite td_attach_tree, td_detach_tree. reflexivity.
  - exact IH.
Qed.

Lemma td_place_for s moved t : td (fst (place_for c s moved t)) = td s.
Proof.
  unfold place_for. destruct (t_comp c t) as [k|]; [|reflexivity].
  destruct (comp_is_ready c s k && can_move c s moved k); [|reflexivity].
  apply td_try_place.
Qed.

(* ------------------------------------------------------------------- PERT *)
Lemma st_set_est_eft x a b : st (set_est_eft x a b) = st x. Proof. reflexivity. Qed.
Lemma st_set_lst_lft x a b : st (set_lst_lft x a b) = st x. Proof. reflexivity. Qed.
Lemma rem_set_est_eft x a b : rem (set_est_eft x a b) = rem x. Proof. reflexivity. Qed.
Lemma rem_set_lst_lft x a b : rem (set_lst_lft x a b) = rem x. Proof. reflexivity. Qed.

(* "keeps st, rem, aw, af of every task" *)
Definition keeps (s s' : pstate) : Prop :=
  forall t, st (td s' t) = st (td s t) /\ rem (td s' t) = rem (td s t)
            /\ aw (td s' t) = aw (td s t) /\ af (td s' t) = af (td s t).
Lemma keeps_refl s : keeps s s. Proof. intros t; repeat split. Qed.
Lemma keeps_trans a b d : keeps a b -> keeps b d -> keeps a d.
Proof.
  intros H1 H2 t. destruct (H1 t) as (A1 & A2 & A3 & A4), (H2 t) as (B1 & B2 & B3 & B4).
  repeat split; congruence.
Qed.

Lemma keeps_upd_pert s t x :
  st x = st (td s t) -> rem x = rem (td s t) -> aw x = aw (td s t) -> af x = af (td s t) ->
  keeps s (with_td s (upd (td s) t x)).
Proof.
  intros H1 H2 H3 H4 t'. cbn [td with_td]. rewrite upd_eq.
  destruct (Nat.eqb t' t) eqn:E; [apply Nat.eqb_eq in E; subst t'; repeat split; assumption|repeat split].
Qed.

Lemma keeps_fwd_edge s src e : keeps s (fwd_edge s src e).
Proof.
  unfold fwd_edge. destruct e as [nxt k]. cbn [fst snd].
  destruct k; cbv zeta;
    match goal with |- keeps _ (if ?b then _ else _) => destruct b end;
    try apply keeps_refl; apply keeps_upd_pert; reflexivity.
Qed.

Lemma keeps_bwd_edge s src e : keeps s (bwd_edge s src e).
Proof.
  unfold bwd_edge. destruct e as [prv k]. cbn [fst snd].
  destruct k; cbv zeta;
    match goal with |- keeps _ (if ?b then _ else _) => destruct b end;
    try apply keeps_refl; apply keeps_upd_pert; reflexivity.
Qed.

Lemma keeps_fwd_round s front : keeps s (fst (fwd_round c s front)).
Proof.
  unfold fwd_round.
  apply (fold_left_inv (fun acc : pstate * list nat => keeps s (fst acc))); [apply keeps_refl|].
  intros acc src Hacc.
  apply (fold_left_inv (fun a2 : pstate * list nat => keeps s (fst a2))); [exact Hacc|].
  intros a2 e Ha2. cbn [fst]. eapply keeps_trans; [exact Ha2|apply keeps_fwd_edge].
Qed.

Lemma keeps_bwd_round s front : keeps s (fst (bwd_round c s front)).
Proof.
  unfold bwd_round.
  apply (fold_left_inv (fun acc : pstate * list nat => keeps s (fst acc))); [apply keeps_refl|].
  intros acc src Hacc.
  apply (fold_left_inv (fun a2 : pstate * list nat => keeps s (fst a2))); [exact Hacc|].
  intros a2 e Ha2. cbn [fst]. eapply keeps_trans; [exact Ha2|apply keeps_bwd_edge].
Qed.

Lemma keeps_fwd_loop fuel : forall s front, keeps s (fwd_loop c fuel s front).
Proof.
  induction fuel as [|f IH]; intros s front; simpl; [apply keeps_refl|].
  destruct front as [|x r]; [apply keeps_refl|].
  destruct (fwd_round c s (x :: r)) as [s' nxt] eqn:E.
  eapply keeps_trans; [|apply IH].
  change s' with (fst (s', nxt)). rewrite <- E. apply keeps_fwd_round.
Qed.

Lemma keeps_bwd_loop fuel : forall s front, keeps s (bwd_loop c fuel s front).
Proof.
  induction fuel as [|f IH]; intros s front; simpl; [apply keeps_refl|].
  destruct front as [|x r]; [apply keeps_refl|].
  destruct (bwd_round c s (x :: r)) as [s' nxt] eqn:E.
  eapply keeps_trans; [|apply IH].
  change s' with (fst (s', nxt)). rewrite <- E. apply keeps_bwd_round.
Qed.

Lemma keeps_tab_td s (f : nat -> tlive) :
  (forall t, st (f t) = st (td s t) /\ rem (f t) = rem (td s t) /\ aw (f t) = aw (td s t) /\ af (f t) = af (td s t)) ->
  keeps s (with_td s (tab (nT c) f (td s))).
Proof.
  intros H t. cbn [td with_td]. rewrite tab_spec. destruct (t <? nT c); [apply H|repeat split].
Qed.

Lemma keeps_pert_forward tm s : keeps s (pert_forward c tm s).
Proof.
  unfold pert_forward. eapply keeps_trans; [|apply keeps_fwd_loop].
  apply keeps_tab_td. intros t. destruct (t_inputs c t); repeat split.
Qed.

Lemma keeps_with_cpl s q : keeps s (with_cpl s q).
Proof. intros t; repeat split. Qed.

Lemma keeps_pert_backward s : keeps s (pert_backward c s).
Proof.
  unfold pert_backward.
  set (s0 := with_td s (tab (nT c) (fun t => set_lst_lft (td s t) (-1)%Q (-1)%Q) (td s))).
  assert (H0 : keeps s s0) by (apply keeps_tab_td; intros t; repeat split).
  destruct (filter _ (tasks c)) as [|x r] eqn:Et.
  - eapply keeps_trans; [exact H0|apply keeps_with_cpl].
  - eapply keeps_trans; [exact H0|]. eapply keeps_trans; [|apply keeps_bwd_loop].
    eapply keeps_trans; [apply keeps_with_cpl|].
    apply (fold_left_inv (fun s' => keeps (with_cpl s0 (max_eft s0 (x :: r))) s')); [apply keeps_refl|].
    intros y t Hy. eapply keeps_trans; [exact Hy|]. apply keeps_upd_pert; reflexivity.
Qed.

Lemma keeps_update_pert tm s : keeps s (update_pert c tm s).
Proof.
  unfold update_pert. eapply keeps_trans; [apply keeps_pert_forward|apply keeps_pert_backward].
Qed.

(* ------------------------------------------------------------ other phases *)
Lemma td_absence_update w s : td (absence_update c w s) = td s.
Proof. unfold absence_update. destruct w; reflexivity. Qed.

Lemma td_add_cost w s : td (add_cost c w s) = td s.
Proof. reflexivity. Qed.
Lemma td_record w s : td (record c w s) = td s.
Proof. reflexivity. Qed.
Lemma td_with_time s n : td (with_time s n) = td s.
Proof. reflexivity. Qed.

Lemma st_perform only_auto s t : st (td (perform c only_auto s) t) = st (td s t).
Proof.
  unfold perform. cbn [td with_td]. rewrite tab_spec.
  destruct (t <? nT c); [|reflexivity].
  destruct (is_working (st (td s t)) && (negb only_auto || t_auto c t)); reflexivity.
Qed.

(* allocation changes aw / af only *)
Definition keeps_st_rem (s s' : pstate) : Prop :=
  forall t, st (td s' t) = st (td s t) /\ rem (td s' t) = rem (td s t).
Lemma ksr_refl s : keeps_st_rem s s. Proof. intros t; split; reflexivity. Qed.
Lemma ksr_trans a b d : keeps_st_rem a b -> keeps_st_rem b d -> keeps_st_rem a d.
Proof. intros H1 H2 t. destruct (H1 t), (H2 t). split; congruence. Qed.
Lemma ksr_td s s' : td s' = td s -> keeps_st_rem s s'.
Proof. intros E t. rewrite E. split; reflexivity. Qed.

Lemma ksr_do_alloc_w s t w : keeps_st_rem s (do_alloc_w s t w).
Proof.
  intros t'. unfold do_alloc_w. cbn [td with_td with_wd]. rewrite upd_eq.
  destruct (Nat.eqb t' t) eqn:E; [apply Nat.eqb_eq in E; subst; split; reflexivity|split; reflexivity].
Qed.
Lemma ksr_do_alloc_f s t f : keeps_st_rem s (do_alloc_f s t f).
Proof.
  intros t'. unfold do_alloc_f. cbn [td with_td with_fd]. rewrite upd_eq.
  destruct (Nat.eqb t' t) eqn:E; [apply Nat.eqb_eq in E; subst; split; reflexivity|split; reflexivity].
Qed.

Lemma ksr_alloc_workers s free t : keeps_st_rem s (fst (alloc_workers c s free t)).
Proof.
  unfold alloc_workers.
  apply (fold_left_inv (fun acc : pstate * list nat => keeps_st_rem s (fst acc))); [apply ksr_refl|].
  intros [s' fr] w H. cbn [fst] in *.
  destruct (can_add c s' t w None); cbn [fst]; [|exact H].
  eapply ksr_trans; [exact H|apply ksr_do_alloc_w].
Qed.

Lemma ksr_alloc_with_facility s free t : keeps_st_rem s (fst (alloc_with_facility c s free t)).
Proof.
  unfold alloc_with_facility.
  destruct (t_comp c t) as [k|]; [|apply ksr_refl].
  destruct (pw (cd s k)) as [p|]; [|apply ksr_refl].
  apply (fold_left_inv (fun acc : pstate * list nat => keeps_st_rem s (fst acc))); [apply ksr_refl|].
  intros [s' fr] f H. cbn [fst] in *.
  destruct (sort_workers c (t_wrule c t) t (Some p) _) as [|w r]; cbn [fst]; [exact H|].
  eapply ksr_trans; [exact H|]. eapply ksr_trans; [apply ksr_do_alloc_w|apply ksr_do_alloc_f].
Qed.

Lemma ksr_alloc_task acc t :
  keeps_st_rem (fst (fst acc)) (fst (fst (alloc_task c acc t))).
Proof.
  destruct acc as [[s free] moved]. unfold alloc_task. cbn [fst].
  destruct (place_for c s moved t) as [s1 moved1] eqn:Ep.
  assert (H1 : keeps_st_rem s s1).
  { apply ksr_td. change s1 with (fst (s1, moved1)). rewrite <- Ep. apply td_place_for. }
  destruct (t_auto c t); cbn [fst]; [exact H1|].
  destruct (t_needfac c t).
  - destruct (alloc_with_facility c s1 free t) as [s2 f2] eqn:E2. cbn [fst].
    eapply ksr_trans; [exact H1|]. change s2 with (fst (s2, f2)). rewrite <- E2. apply ksr_alloc_with_facility.
  - destruct (alloc_workers c s1 free t) as [s2 f2] eqn:E2. cbn [fst].
    eapply ksr_trans; [exact H1|]. change s2 with (fst (s2, f2)). rewrite <- E2. apply ksr_alloc_workers.
Qed.

Lemma ksr_allocate o s : keeps_st_rem s (allocate c o s).
Proof.
  unfold allocate.
  apply (fold_left_inv (fun acc : pstate * list nat * list nat => keeps_st_rem s (fst (fst acc)))); [apply ksr_refl|].
  intros acc t H. eapply ksr_trans; [exact H|apply ksr_alloc_task].
Qed.

End Frames.

(* C06: no avoidable waiting (clauses a, b, d; the maximality clause c is in
   Proofs/Maximal.v). *)
From Coq Require Import List ZArith QArith Bool Arith Lia.
From PV Require Import Model.Types Model.Sim Proofs.Base Proofs.Frames Proofs.Proj Proofs.RunLemmas
  Proofs.C01Proof Proofs.C02Proof Proofs.FinishComplete.
Import ListNotations.
Open Scope nat_scope.

Section C06.
Variable c : cfg.

(* closed form of the task states after __check_working *)
Lemma stof_cw_fold l : forall x t, NoDup l ->
  stof (fold_left (cw_one c) l x) t = if mem t l && is_ready (stof x t) then TWorking else stof x t.
Proof.
  induction l as [|y l IH]; intros x t Hnd; cbn [fold_left]; [reflexivity|].
  inversion Hnd as [|y' l' Hy Hnd']; subst.
  rewrite IH by exact Hnd'. rewrite !stof_cw_one.
  unfold mem. cbn [existsb]. fold (mem t l).
  destruct (Nat.eqb t y) eqn:E.
  - apply Nat.eqb_eq in E. subst y. cbn [andb orb].
    assert (Em : mem t l = false) by (destruct (mem t l) eqn:Em; [apply mem_In in Em; contradiction|reflexivity]).
    rewrite Em. cbn [andb]. reflexivity.
  - cbn [andb orb]. reflexivity.
Qed.

Lemma NoDup_filter_seq (p : nat -> bool) n : NoDup (filter p (seq 0 n)).
Proof. apply NoDup_filter, seq_NoDup. Qed.

Theorem stof_check_working s t :
  stof (check_working c s) t =
  if (t <? nT c) && cw_target c s t && is_ready (stof s t) then TWorking else stof s t.
Proof.
  unfold check_working. rewrite stof_cw_fold by apply NoDup_filter_seq.
  destruct (mem t (filter (cw_target c s) (tasks c))) eqn:Em.
  - apply mem_In in Em. apply filter_In in Em. destruct Em as [Hin Htg].
    apply in_seq in Hin. assert (Hlt : (t <? nT c) = true) by (apply Nat.ltb_lt; lia).
    rewrite Hlt, Htg. reflexivity.
  - destruct ((t <? nT c) && cw_target c s t) eqn:E; [|reflexivity].
    apply andb_true_iff in E. destruct E as [E1 E2]. apply Nat.ltb_lt in E1.
    assert (Hin : In t (filter (cw_target c s) (tasks c))) by (apply filter_In; split; [apply in_seq; lia|exact E2]).
    apply mem_In in Hin. congruence.
Qed.

(* (b) an automatic task without component that is READY after __update is
   WORKING after the allocation phase of every step in which tasks may start
   (working steps, and absence steps when automatic tasks run in them) *)
Theorem C06_auto_never_waits o s t : t < nT c ->
  t_auto c t = true -> t_comp c t = None -> stof s t = TReady ->
  (negb (mem (time s) (o_abs o)) || o_auto_abs o) = true ->
  stof (step_allocate c o s) t = TWorking.
Proof.
  intros Ht Ha Hc Hr Hw. unfold step_allocate. rewrite Hw.
  set (w := negb (mem (time s) (o_abs o))) in *.
  set (s2 := if w then allocate c o (absence_update c w s) else absence_update c w s).
  assert (E2 : stof s2 t = TReady).
  { unfold s2, stof. destruct w.
    - destruct (ksr_allocate c o (absence_update c true s) t) as [E _]. rewrite E, td_absence_update. exact Hr.
    - rewrite td_absence_update. exact Hr. }
  unfold stof at 1. cbn [td product_check_state with_cd]. fold (stof (check_working c s2) t).
  rewrite stof_check_working. apply Nat.ltb_lt in Ht. rewrite Ht, E2. cbn [is_ready andb].
  unfold cw_target. fold (stof s2 t). rewrite E2, Ha, Hc. cbn [is_ready andb orb].
  rewrite orb_true_r. reflexivity.
Qed.

End C06.

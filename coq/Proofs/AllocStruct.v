(* Induction principle for BaseProject.__allocate: any predicate on (state,
   free worker list) that is stable under the placement block, under
   permutation of the free list, under a worker allocation guarded as in the
   code and under a worker+facility allocation guarded as in the code holds
   after allocate. *)
From Coq Require Import List ZArith QArith Bool Arith Lia Permutation.
From PV Require Import Model.Types Model.Sim Proofs.Base Proofs.Frames Proofs.Proj Proofs.SortProof.
Import ListNotations.
Open Scope nat_scope.

Section AllocStruct.
Variable c : cfg.
Variable P : pstate -> list nat -> Prop.

(* the placement block of a task keeps P (for instance because P does not
   look at the placement records, see allocate_induction below) *)
Hypothesis P_place : forall s moved t fr, P s fr -> P (fst (place_for c s moved t)) fr.
Hypothesis P_perm : forall s fr fr', Permutation fr' fr -> P s fr -> P s fr'.
Hypothesis P_alloc_w : forall s fr t w,
  t < nT c -> In w fr -> has_wskill c w t = true -> w_targets c w t = true ->
  can_add c s t w None = true -> t_needfac c t = false -> t_auto c t = false ->
  P s fr -> P (do_alloc_w s t w) (filter (fun w' => negb (Nat.eqb w' w)) fr).
Hypothesis P_alloc_f : forall s fr t w f k p,
  t < nT c -> t_comp c t = Some k -> pw (cd s k) = Some p -> In f (wp_facs c p) ->
  rstate_eqb (rst (fd s f)) RFree = true -> has_fskill c f t = true -> f_targets c f t = true ->
  In w fr -> has_wskill c w t = true -> w_targets c w t = true ->
  can_add c s t w (Some f) = true -> t_needfac c t = true -> t_auto c t = false ->
  P s fr -> P (do_alloc_f (do_alloc_w s t w) t f) (filter (fun w' => negb (Nat.eqb w' w)) fr).

Lemma sort_workers_perm' rule t tgt l : Permutation (sort_workers c rule t tgt l) l.
Proof.
  unfold sort_workers, sort_by3.
  destruct rule as [|p|p]; try reflexivity; try apply stable_sort_perm.
  - destruct p as [p|p|]; try reflexivity; try apply stable_sort_perm.
    destruct p; try reflexivity; apply stable_sort_perm.
  - destruct p; try reflexivity; apply stable_sort_perm.
Qed.

Lemma sort_facs_in rule t l f : In f (sort_facs c rule t l) -> In f l.
Proof.
  unfold sort_facs, sort_by, sort_by3. intros Hf.
  destruct rule as [|q|q]; try exact Hf; try (apply stable_sort_in in Hf; exact Hf).
  destruct q as [q|q|]; try exact Hf; try (apply stable_sort_in in Hf; exact Hf).
  destruct q; try exact Hf; apply stable_sort_in in Hf; exact Hf.
Qed.

Lemma P_alloc_workers s free t : t < nT c -> t_needfac c t = false -> t_auto c t = false ->
  NoDup free -> P s free ->
  NoDup (snd (alloc_workers c s free t)) /\ P (fst (alloc_workers c s free t)) (snd (alloc_workers c s free t)).
Proof.
  intros Ht Hnf Hna Hnd0 HP. unfold alloc_workers.
  set (free1 := sort_workers c (t_wrule c t) t None free).
  assert (HP1 : P s free1) by (eapply P_perm; [apply sort_workers_perm'|exact HP]).
  assert (Hnd1 : NoDup free1) by (eapply Permutation_NoDup; [symmetry; apply sort_workers_perm'|exact Hnd0]).
  set (cands := filter (fun w => has_wskill c w t && w_targets c w t) free1).
  assert (G : forall l (acc : pstate * list nat),
            (forall w, In w l -> has_wskill c w t = true /\ w_targets c w t = true) ->
            NoDup l -> (forall w, In w l -> In w (snd acc)) -> NoDup (snd acc) -> P (fst acc) (snd acc) ->
            let r := fold_left (fun (acc : pstate * list nat) w =>
                       let (s', fr) := acc in
                       if can_add c s' t w None
                       then (do_alloc_w s' t w, filter (fun w' => negb (Nat.eqb w' w)) fr) else acc) l acc in
            NoDup (snd r) /\ P (fst r) (snd r)).
  { induction l as [|w l IH]; intros [s' fr] Hc Hnd Hin Hndf HPa; cbn [fold_left]; [split; assumption|].
    inversion Hnd as [|x l' Hx Hnd']; subst. cbn [fst snd] in *.
    destruct (can_add c s' t w None) eqn:Ec.
    - apply IH; [intros w' Hw'; apply Hc; right; exact Hw'|exact Hnd'| | |].
      + cbn [snd]. intros w' Hw'. apply filter_In. split; [apply Hin; right; exact Hw'|].
        destruct (Nat.eqb w' w) eqn:E; [apply Nat.eqb_eq in E; subst; contradiction|reflexivity].
      + cbn [snd]. apply NoDup_filter. exact Hndf.
      + cbn [fst snd]. destruct (Hc w (or_introl eq_refl)) as [C1 C2].
        apply P_alloc_w; try assumption. apply Hin. left. reflexivity.
    - apply IH; [intros w' Hw'; apply Hc; right; exact Hw'|exact Hnd'
                |intros w' Hw'; apply Hin; right; exact Hw'|exact Hndf|exact HPa]. }
  apply (G cands (s, free1)).
  - intros w Hw. apply filter_In in Hw. destruct Hw as [_ Hw]. apply andb_true_iff in Hw. exact Hw.
  - apply NoDup_filter. exact Hnd1.
  - intros w Hw. apply filter_In in Hw. apply Hw.
  - exact Hnd1.
  - exact HP1.
Qed.

Lemma pi_do_alloc_cd s t w f : cd (do_alloc_f (do_alloc_w s t w) t f) = cd s.
Proof. reflexivity. Qed.
Lemma rst_fd_do_alloc s t w f f' : rst (fd (do_alloc_f (do_alloc_w s t w) t f) f') = rst (fd s f').
Proof.
  unfold do_alloc_f, do_alloc_w. cbn [fd with_fd with_td with_wd]. rewrite upd_eq.
  destruct (Nat.eqb f' f) eqn:E; [apply Nat.eqb_eq in E; subst; reflexivity|reflexivity].
Qed.

Lemma P_alloc_with_facility s free t : t < nT c -> t_needfac c t = true -> t_auto c t = false ->
  NoDup free -> P s free ->
  NoDup (snd (alloc_with_facility c s free t)) /\
  P (fst (alloc_with_facility c s free t)) (snd (alloc_with_facility c s free t)).
Proof.
  intros Ht Hnf Hna Hnd0 HP. unfold alloc_with_facility.
  destruct (t_comp c t) as [k|] eqn:Ek; [|split; assumption].
  destruct (pw (cd s k)) as [p|] eqn:Ep; [|split; assumption].
  set (alloc_f := filter (fun f => has_fskill c f t && f_targets c f t)
                    (sort_facs c (t_frule c t) t (filter (fun f => rstate_eqb (rst (fd s f)) RFree) (wp_facs c p)))).
  assert (Hf0 : forall f, In f alloc_f -> In f (wp_facs c p) /\ rstate_eqb (rst (fd s f)) RFree = true
                                       /\ has_fskill c f t = true /\ f_targets c f t = true).
  { intros f Hf. unfold alloc_f in Hf. apply filter_In in Hf. destruct Hf as [Hf Hc].
    apply sort_facs_in in Hf. apply filter_In in Hf. destruct Hf as [H1 H2].
    apply andb_true_iff in Hc. destruct Hc as [H3 H4]. repeat split; assumption. }
  assert (G : forall l (acc : pstate * list nat),
            (forall f, In f l -> In f (wp_facs c p) /\ rstate_eqb (rst (fd (fst acc) f)) RFree = true
                                /\ has_fskill c f t = true /\ f_targets c f t = true) ->
            pw (cd (fst acc) k) = Some p -> NoDup (snd acc) -> P (fst acc) (snd acc) ->
            let r := fold_left (fun (acc : pstate * list nat) f =>
                       let (s', fr) := acc in
                       let cands := filter (fun w => has_wskill c w t && w_targets c w t && can_add c s' t w (Some f)) fr in
                       let cands := sort_workers c (t_wrule c t) t (Some p) cands in
                       match cands with
                       | [] => acc
                       | w :: _ => (do_alloc_f (do_alloc_w s' t w) t f, filter (fun w' => negb (Nat.eqb w' w)) fr)
                       end) l acc in
            NoDup (snd r) /\ P (fst r) (snd r)).
  { induction l as [|f l IH]; intros [s' fr] Hl Hpw Hndf HPa; cbn [fold_left]; [split; assumption|].
    cbn [fst snd] in *.
    destruct (sort_workers c (t_wrule c t) t (Some p)
                (filter (fun w => has_wskill c w t && w_targets c w t && can_add c s' t w (Some f)) fr)) as [|w r] eqn:Es.
    - apply IH; [intros f' Hf'; apply Hl; right; exact Hf'|exact Hpw|exact Hndf|exact HPa].
    - assert (Hw : In w (filter (fun w => has_wskill c w t && w_targets c w t && can_add c s' t w (Some f)) fr)).
      { eapply Permutation_in; [apply sort_workers_perm'|]. rewrite Es. left. reflexivity. }
      apply filter_In in Hw. destruct Hw as [Hwin Hwc]. apply andb_true_iff in Hwc. destruct Hwc as [Hwc Hca].
      apply andb_true_iff in Hwc. destruct Hwc as [Hsk Htg].
      destruct (Hl f (or_introl eq_refl)) as (F1 & F2 & F3 & F4).
      apply IH.
      + intros f' Hf'. destruct (Hl f' (or_intror Hf')) as (G1 & G2 & G3 & G4).
        cbn [fst]. rewrite rst_fd_do_alloc. repeat split; assumption.
      + cbn [fst]. rewrite pi_do_alloc_cd. exact Hpw.
      + cbn [snd]. apply NoDup_filter. exact Hndf.
      + cbn [fst snd]. apply (P_alloc_f s' fr t w f k p); assumption. }
  apply (G alloc_f (s, free)); cbn [fst snd]; [exact Hf0|exact Ep|exact Hnd0|exact HP].
Qed.

Lemma P_alloc_task acc t : t < nT c ->
  NoDup (snd (fst acc)) -> P (fst (fst acc)) (snd (fst acc)) ->
  NoDup (snd (fst (alloc_task c acc t))) /\ P (fst (fst (alloc_task c acc t))) (snd (fst (alloc_task c acc t))).
Proof.
  destruct acc as [[s free] moved]. cbn [fst snd]. intros Ht Hnd HP. unfold alloc_task.
  destruct (place_for c s moved t) as [s1 moved1] eqn:Epl.
  assert (HP1 : P s1 free) by (change s1 with (fst (s1, moved1)); rewrite <- Epl; apply P_place; exact HP).
  destruct (t_auto c t) eqn:Ea; cbn [fst snd]; [split; assumption|].
  destruct (t_needfac c t) eqn:Enf.
  - destruct (alloc_with_facility c s1 free t) as [s2 f2] eqn:E. cbn [fst snd].
    pose proof (P_alloc_with_facility s1 free t Ht Enf Ea Hnd HP1) as R. rewrite E in R. exact R.
  - destruct (alloc_workers c s1 free t) as [s2 f2] eqn:E. cbn [fst snd].
    pose proof (P_alloc_workers s1 free t Ht Enf Ea Hnd HP1) as R. rewrite E in R. exact R.
Qed.

Theorem allocate_induction_gen o s :
  NoDup (all_workers c) ->
  P s (filter (fun w => rstate_eqb (rst (wd s w)) RFree) (all_workers c)) ->
  exists fr, P (allocate c o s) fr.
Proof.
  intros Hnd HP. unfold allocate.
  set (free := filter (fun w => rstate_eqb (rst (wd s w)) RFree) (all_workers c)).
  assert (G : forall l acc, (forall t, In t l -> t < nT c) ->
             NoDup (snd (fst acc)) -> P (fst (fst acc)) (snd (fst acc)) ->
             exists fr, P (fst (fst (fold_left (alloc_task c) l acc))) fr).
  { induction l as [|t l IH]; intros acc Hl H1 H2; cbn [fold_left]; [eexists; exact H2|].
    destruct (P_alloc_task acc t (Hl t (or_introl eq_refl)) H1 H2) as [R1 R2].
    apply IH; [intros x Hx; apply Hl; right; exact Hx|exact R1|exact R2]. }
  apply G; cbn [fst snd]; [|apply NoDup_filter; exact Hnd|exact HP].
  intros t Hin. unfold sort_tasks, sort_by in Hin. apply stable_sort_in in Hin. apply filter_In in Hin.
  destruct Hin as [Hin _]. apply in_seq in Hin. lia.
Qed.

End AllocStruct.

(* the special case of a predicate that ignores the placement records *)
Theorem allocate_induction (c : cfg) (P : pstate -> list nat -> Prop) :
  (forall s s' fr, td s' = td s -> wd s' = wd s -> fd s' = fd s -> P s fr -> P s' fr) ->
  (forall s fr fr', Permutation fr' fr -> P s fr -> P s fr') ->
  (forall s fr t w, t < nT c -> In w fr -> has_wskill c w t = true -> w_targets c w t = true ->
     can_add c s t w None = true -> t_needfac c t = false -> t_auto c t = false ->
     P s fr -> P (do_alloc_w s t w) (filter (fun w' => negb (Nat.eqb w' w)) fr)) ->
  (forall s fr t w f k p, t < nT c -> t_comp c t = Some k -> pw (cd s k) = Some p -> In f (wp_facs c p) ->
     rstate_eqb (rst (fd s f)) RFree = true -> has_fskill c f t = true -> f_targets c f t = true ->
     In w fr -> has_wskill c w t = true -> w_targets c w t = true ->
     can_add c s t w (Some f) = true -> t_needfac c t = true -> t_auto c t = false ->
     P s fr -> P (do_alloc_f (do_alloc_w s t w) t f) (filter (fun w' => negb (Nat.eqb w' w)) fr)) ->
  forall o s, NoDup (all_workers c) ->
  P s (filter (fun w => rstate_eqb (rst (wd s w)) RFree) (all_workers c)) ->
  exists fr, P (allocate c o s) fr.
Proof.
  intros P_frame P_perm P_w P_f o s. apply (allocate_induction_gen c P); try assumption.
  intros s0 moved t fr H. apply (P_frame s0); [apply td_place_for| | |exact H].
  - apply (pi_place_for c _ wd); reflexivity.
  - apply (pi_place_for c _ fd); reflexivity.
Qed.

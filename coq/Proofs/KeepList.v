(* Removing a set of positions from a list: [rem_seq] (pop the listed
   positions, largest first, each guarded by the current length) keeps exactly
   the elements whose index is not listed.  Used for C10 (f). *)
From Coq Require Import List ZArith Bool Arith Lia Sorted Permutation.
From PV Require Import Model.Types Model.Sim Model.LogEdit Proofs.Base Proofs.SortProof.
Import ListNotations.
Open Scope nat_scope.

Section Keep.
Context {A : Type}.

(* the elements of l (which starts at absolute index i) whose index is not in L *)
Fixpoint keep (L : list nat) (i : nat) (l : list A) : list A :=
  match l with
  | [] => []
  | x :: r => if mem i L then keep L (S i) r else x :: keep L (S i) r
  end.

Lemma keep_app L l1 : forall i l2, keep L i (l1 ++ l2) = keep L i l1 ++ keep L (i + length l1) l2.
Proof.
  induction l1 as [|x l1 IH]; intros i l2; cbn [app keep length].
  - rewrite Nat.add_0_r. reflexivity.
  - rewrite IH. replace (S i + length l1) with (i + S (length l1)) by lia.
    destruct (mem i L); reflexivity.
Qed.

Lemma keep_ext L L' : (forall i, mem i L = mem i L') -> forall l i, keep L i l = keep L' i l.
Proof. intros H. induction l as [|x l IH]; intros i; cbn [keep]; [reflexivity|]. rewrite H, IH. reflexivity. Qed.

Lemma keep_nil l : forall i, keep [] i l = l.
Proof. induction l as [|x l IH]; intros i; cbn [keep]; [reflexivity|]. cbn. rewrite IH. reflexivity. Qed.

Lemma keep_length_le L l : forall i, length (keep L i l) <= length l.
Proof. induction l as [|x l IH]; intros i; cbn [keep length]; [lia|]. specialize (IH (S i)). destruct (mem i L); cbn [length]; lia. Qed.

Lemma keep_cons_lt L j l : forall i, j < i -> keep (j :: L) i l = keep L i l.
Proof.
  induction l as [|x l IH]; intros i Hj; cbn [keep]; [reflexivity|].
  rewrite IH by lia. unfold mem. cbn [existsb].
  assert (E : Nat.eqb i j = false) by (apply Nat.eqb_neq; lia). rewrite E. reflexivity.
Qed.

Lemma rem_one_keep rest : forall l i k, (forall x, In x rest -> i + k < x) ->
  rem_one (keep rest i l) k = keep ((i + k) :: rest) i l.
Proof.
  induction l as [|x l IH]; intros i k Hr.
  - cbn [keep]. unfold rem_one. cbn [length]. destruct (k <? 0) eqn:E; [apply Nat.ltb_lt in E; lia|reflexivity].
  - assert (Hm : mem i rest = false).
    { destruct (mem i rest) eqn:E; [|reflexivity]. apply mem_In in E. specialize (Hr i E). lia. }
    cbn [keep]. rewrite Hm.
    destruct k as [|k].
    + rewrite Nat.add_0_r. unfold mem at 1. cbn [existsb]. rewrite Nat.eqb_refl. cbn [orb].
      rewrite keep_cons_lt by lia. unfold rem_one. cbn [length]. reflexivity.
    + assert (Hm2 : mem i ((i + S k) :: rest) = false).
      { unfold mem. cbn [existsb]. fold (mem i rest). rewrite Hm.
        assert (E : Nat.eqb i (i + S k) = false) by (apply Nat.eqb_neq; lia). rewrite E. reflexivity. }
      rewrite Hm2. replace (i + S k) with (S i + k) by lia.
      rewrite <- (IH (S i) k) by (intros y Hy; specialize (Hr y Hy); lia).
      unfold rem_one. cbn [length]. change (S k <? S (length (keep rest (S i) l))) with (k <? length (keep rest (S i) l)).
      destruct (k <? length (keep rest (S i) l)); reflexivity.
Qed.

Lemma rem_seq_cons k rest (l : list A) : rem_seq (k :: rest) l = rem_one (rem_seq rest l) k.
Proof. unfold rem_seq. cbn [rev]. rewrite fold_left_app. reflexivity. Qed.

(* strictly ascending steps *)
Lemma rem_seq_keep steps : StronglySorted lt steps -> forall l : list A, rem_seq steps l = keep steps 0 l.
Proof.
  induction 1 as [|k rest Hs IH Hall]; intros l.
  - unfold rem_seq. cbn. rewrite keep_nil. reflexivity.
  - rewrite rem_seq_cons, IH. rewrite Forall_forall in Hall.
    apply (rem_one_keep rest l 0 k). intros x Hx. cbn. apply Hall. exact Hx.
Qed.
End Keep.

Lemma keep_map {A B} (f : A -> B) L l : forall i, keep L i (map f l) = map f (keep L i l).
Proof. induction l as [|x l IH]; intros i; cbn [keep map]; [reflexivity|]. rewrite IH. destruct (mem i L); reflexivity. Qed.

(* sorted(set(L)) is strictly ascending and lists the same steps *)
Lemma sorted_set_in L x : In x (sorted_set L) <-> In x L.
Proof. unfold sorted_set. rewrite stable_sort_in. apply nodup_In. Qed.

Lemma sorted_set_strict L : StronglySorted lt (sorted_set L).
Proof.
  unfold sorted_set.
  assert (Hs : StronglySorted (leP nat Nat.leb) (stable_sort nat Nat.leb (nodup Nat.eq_dec L))).
  { apply stable_sort_sorted.
    - intros a b. destruct (Nat.leb a b) eqn:E; [left; reflexivity|right]. apply Nat.leb_gt in E. apply Nat.leb_le. lia.
    - intros a b d H1 H2. apply Nat.leb_le in H1, H2. apply Nat.leb_le. lia. }
  assert (Hn : NoDup (stable_sort nat Nat.leb (nodup Nat.eq_dec L))) by (apply stable_sort_nodup, NoDup_nodup).
  revert Hs Hn. generalize (stable_sort nat Nat.leb (nodup Nat.eq_dec L)). intros l Hs.
  induction Hs as [|a l Hs IH Hall]; intros Hn; constructor.
  - apply IH. inversion Hn; assumption.
  - rewrite Forall_forall in *. intros x Hx. specialize (Hall x Hx). unfold leP in Hall. apply Nat.leb_le in Hall.
    inversion Hn as [|? ? Hnot _]; subst. assert (a <> x) by (intros ->; contradiction). lia.
Qed.

Theorem rem_seq_sorted_set {A} L (l : list A) : rem_seq (sorted_set L) l = keep L 0 l.
Proof.
  rewrite rem_seq_keep by apply sorted_set_strict.
  apply keep_ext. intros i.
  destruct (mem i L) eqn:E.
  - apply (proj2 (mem_In _ _)). apply (proj2 (sorted_set_in _ _)). apply (proj1 (mem_In _ _)). exact E.
  - destruct (mem i (sorted_set L)) eqn:E2; [|reflexivity].
    apply (proj1 (mem_In _ _)) in E2. apply (proj1 (sorted_set_in _ _)) in E2. apply (proj2 (mem_In _ _)) in E2. rewrite E2 in E. discriminate.
Qed.

(* Static configuration and dynamic state of the simulator model.
   Objects are identified by their position in the owning list of the Python
   object graph: task i = workflow.task_list[i]; worker / facility indices are
   positions in the flattened team / workplace lists; component i =
   product.component_list[i]; team / workplace i = organization lists. *)
From Coq Require Import List ZArith QArith Bool Arith.
From PV Require Export Model.Gantt.
Import ListNotations.

Inductive dep := FS | SS | FF | SF.
Inductive pstatus := StNone | StSuccess | StFailure.

Definition dep_eqb (a b : dep) : bool :=
  match a, b with FS, FS | SS, SS | FF, FF | SF, SF => true | _, _ => false end.

(* total maps indexed by position *)
Definition upd {A} (f : nat -> A) (i : nat) (v : A) : nat -> A :=
  fun j => if Nat.eqb j i then v else f j.

(* tabulated pointwise definition: [tab n f d i = if i <? n then f i else d i]
   (lemma tab_spec); the values are materialised once, so that evaluating the
   model does not re-run the whole history at every lookup *)
Definition tab {A} (n : nat) (f : nat -> A) (d : nat -> A) : nat -> A :=
  let l := map f (seq 0 n) in
  fun i => match nth_error l i with Some v => v | None => d i end.

Definition mem (x : nat) (l : list nat) : bool := existsb (Nat.eqb x) l.

Fixpoint remove_first (x : nat) (l : list nat) : list nat :=
  match l with
  | [] => []
  | y :: r => if Nat.eqb x y then r else y :: remove_first x r
  end.

Fixpoint assoc (k : nat) (l : list (nat * Q)) : option Q :=
  match l with
  | [] => None
  | (k', v) :: r => if Nat.eqb k k' then Some v else assoc k r
  end.

(* numbers *)
Definition Qltb (a b : Q) : bool := negb (Qle_bool b a).
Definition Qleb (a b : Q) : bool := Qle_bool a b.
Definition qsum (l : list Q) : Q := fold_left Qplus l 0%Q.

(* tolerances of the code (values are also extracted into Gen/Consts.v) *)
Definition tol : Q := 1 # 10000000000.        (* 1e-10 *)
Definition tol_space : Q := 1 # 100000000.    (* 1e-8, BaseWorkplace.can_put *)

Record cfg := mkCfg {
  nT : nat; nW : nat; nF : nat; nC : nat; nTeam : nat; nWP : nat;
  (* tasks *)
  t_name : nat -> nat;
  t_work : nat -> Q;
  t_progress : nat -> Q;
  t_rate : nat -> Q;                       (* work_amount_progress_of_unit_step_time *)
  t_auto : nat -> bool;
  t_needfac : nat -> bool;
  t_comp : nat -> option nat;
  t_inputs : nat -> list (nat * dep);      (* input_task_list, in list order *)
  t_outputs : nat -> list (nat * dep);
  t_teams : nat -> list nat;               (* allocated_team_list *)
  t_wps : nat -> list nat;                 (* allocated_workplace_list *)
  t_fixw : nat -> option (list nat);
  t_fixf : nat -> option (list nat);
  t_wrule : nat -> Z; t_frule : nat -> Z; t_prule : nat -> Z;   (* enum values *)
  t_due : nat -> Z;
  (* workers *)
  w_team : nat -> nat;
  w_skills : nat -> list (nat * Q);        (* workamount_skill_mean_map keyed by task name *)
  w_fskills : nat -> list (nat * Q);       (* facility_skill_map keyed by facility name *)
  w_cost : nat -> Q; w_solo : nat -> bool; w_abs : nat -> list nat;
  w_mainwp : nat -> option nat;
  team_workers : nat -> list nat;
  (* facilities / workplaces *)
  f_wp : nat -> nat; f_name : nat -> nat;
  f_skills : nat -> list (nat * Q);
  f_cost : nat -> Q; f_solo : nat -> bool; f_abs : nat -> list nat;
  wp_facs : nat -> list nat;
  wp_cap : nat -> Q;
  wp_inputs : nat -> list nat;
  (* components *)
  c_size : nat -> Q;
  c_children : nat -> list nat;
  c_parents : nat -> list nat;
  c_tasks : nat -> list nat
}.

(* options of one simulate call *)
Record opts := mkOpts {
  o_rule : Z;                 (* TaskPriorityRuleMode value *)
  o_abs : list nat;           (* project-wide absence steps *)
  o_auto_abs : bool;          (* perform_auto_task_while_absence_time *)
  o_init_state : bool; o_init_log : bool;
  o_max_time : nat;
  o_crank : list nat          (* visit order of the one remaining set of components *)
}.

(* live (state_info) part and log (log_info) part are separate records so that
   the frame of each phase is visible in its type of update *)
Record tlive := mkTL { st : tstate; rem : Q; aw : list nat; af : list nat;
                       est : Q; eft : Q; lst : Q; lft : Q }.
Record tlog := mkTLog { l_st : list tstate; l_rem : list Q; l_aw : list (list nat); l_af : list (list nat) }.
Record rlive := mkRL { rst : rstate; asg : list nat }.
Record rlog := mkRLog { rl_st : list rstate; rl_cost : list Q; rl_asg : list (list nat) }.
Record clive := mkCL { cst : cstate; pw : option nat }.
Record clog := mkCLog { cl_st : list cstate; cl_pw : list (option nat) }.
Record wplog := mkWPLog { wl_cost : list Q; wl_pc : list (list nat) }.

Record pstate := mkP {
  time : nat;
  status : pstatus;
  cpl : Q;                                  (* workflow.critical_path_length *)
  td : nat -> tlive; wd : nat -> rlive; fd : nat -> rlive; cd : nat -> clive;
  wpc : nat -> list nat;                    (* workplace.placed_component_list *)
  tl : nat -> tlog; wl : nat -> rlog; fl : nat -> rlog; cl : nat -> clog; wpl : nat -> wplog;
  teaml : nat -> list Q;                    (* team.cost_list *)
  orgl : list Q;                            (* organization.cost_list *)
  costl : list Q                            (* project.cost_list *)
}.

Definition tstate_rank (s : tstate) : nat :=
  match s with TNone => 0 | TReady => 1 | TWorking => 2 | TWorkingAdd => 2 | TFinished => 3 end.

Definition is_fin (s : tstate) : bool := match s with TFinished => true | _ => false end.
Definition is_working (s : tstate) : bool := match s with TWorking => true | _ => false end.
Definition is_ready (s : tstate) : bool := match s with TReady => true | _ => false end.
Definition is_none (s : tstate) : bool := match s with TNone => true | _ => false end.
(* "has started": WORKING or FINISHED *)
Definition started (s : tstate) : bool := match s with TWorking | TFinished => true | _ => false end.

Definition rstate_is (a b : rstate) : bool := rstate_eqb a b.

(* record updates *)
Definition set_st (x : tlive) (s : tstate) := mkTL s (rem x) (aw x) (af x) (est x) (eft x) (lst x) (lft x).
Definition set_rem (x : tlive) (r : Q) := mkTL (st x) r (aw x) (af x) (est x) (eft x) (lst x) (lft x).
Definition set_aw (x : tlive) (l : list nat) := mkTL (st x) (rem x) l (af x) (est x) (eft x) (lst x) (lft x).
Definition set_af (x : tlive) (l : list nat) := mkTL (st x) (rem x) (aw x) l (est x) (eft x) (lst x) (lft x).
Definition set_est_eft (x : tlive) (a b : Q) := mkTL (st x) (rem x) (aw x) (af x) a b (lst x) (lft x).
Definition set_lst_lft (x : tlive) (a b : Q) := mkTL (st x) (rem x) (aw x) (af x) (est x) (eft x) a b.

Definition with_td (s : pstate) (f : nat -> tlive) :=
  mkP (time s) (status s) (cpl s) f (wd s) (fd s) (cd s) (wpc s) (tl s) (wl s) (fl s) (cl s) (wpl s) (teaml s) (orgl s) (costl s).
Definition with_wd (s : pstate) (f : nat -> rlive) :=
  mkP (time s) (status s) (cpl s) (td s) f (fd s) (cd s) (wpc s) (tl s) (wl s) (fl s) (cl s) (wpl s) (teaml s) (orgl s) (costl s).
Definition with_fd (s : pstate) (f : nat -> rlive) :=
  mkP (time s) (status s) (cpl s) (td s) (wd s) f (cd s) (wpc s) (tl s) (wl s) (fl s) (cl s) (wpl s) (teaml s) (orgl s) (costl s).
Definition with_cd (s : pstate) (f : nat -> clive) :=
  mkP (time s) (status s) (cpl s) (td s) (wd s) (fd s) f (wpc s) (tl s) (wl s) (fl s) (cl s) (wpl s) (teaml s) (orgl s) (costl s).
Definition with_wpc (s : pstate) (f : nat -> list nat) :=
  mkP (time s) (status s) (cpl s) (td s) (wd s) (fd s) (cd s) f (tl s) (wl s) (fl s) (cl s) (wpl s) (teaml s) (orgl s) (costl s).
Definition with_cpl (s : pstate) (c : Q) :=
  mkP (time s) (status s) c (td s) (wd s) (fd s) (cd s) (wpc s) (tl s) (wl s) (fl s) (cl s) (wpl s) (teaml s) (orgl s) (costl s).
Definition with_status (s : pstate) (x : pstatus) :=
  mkP (time s) x (cpl s) (td s) (wd s) (fd s) (cd s) (wpc s) (tl s) (wl s) (fl s) (cl s) (wpl s) (teaml s) (orgl s) (costl s).
Definition with_time (s : pstate) (t : nat) :=
  mkP t (status s) (cpl s) (td s) (wd s) (fd s) (cd s) (wpc s) (tl s) (wl s) (fl s) (cl s) (wpl s) (teaml s) (orgl s) (costl s).

Definition tstate_of_live (s : pstate) (t : nat) : tstate := st (td s t).

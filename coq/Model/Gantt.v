(* Model of the Gantt run-length encoders, the chart row arithmetic, the
   extract_<state>_list queries and set_last_datetime.

   Mirrors (after the F16 repair):
     BaseTask.get_time_list_for_gannt_chart        (base_task.py)
     BaseComponent.get_time_list_for_gannt_chart   (base_component.py)
     BaseWorker.get_time_list_for_gannt_chart      (base_worker.py)
     BaseFacility.get_time_list_for_gannt_chart    (base_facility.py)
     *.create_data_for_gantt_plotly  (index -> datetime arithmetic only)
     Base{Workflow,Product,Team,Workplace}.__extract_state_*_list
     BaseProject.set_last_datetime

   Definitions only; proofs are in Proofs/GanttProof.v. *)
From Coq Require Import List ZArith QArith Bool.
Import ListNotations.
Open Scope Z_scope.

Section Encoder.
  Variable A : Type.
  Variable eqb : A -> A -> bool.
  (* which states have an output list (READY/WORKING for tasks and
     components; FREE/WORKING/ABSENCE for workers and facilities) *)
  Variable emit : A -> bool.
  Variable margin : Q.

  (* loop state of the Python encoder.  [outs] is the sequence of appends,
     tagged with the state whose list received the append; the individual
     Python lists are its projections (see [proj]). *)
  Record acc := mkAcc {
    prev : option A;
    from_t : Z;
    to_t : Z;
    outs : list (A * (Z * Q))
  }.

  Definition neq_prev (s : A) (p : option A) : bool :=
    match p with None => true | Some q => negb (eqb s q) end.

  Definition emit_prev (p : option A) (rec : Z * Q) (o : list (A * (Z * Q))) :=
    match p with
    | Some q => if emit q then o ++ [(q, rec)] else o
    | None => o
    end.

  (* one iteration of  "for time, state in enumerate(self.state_record_list)" *)
  Definition enc_step (time : Z) (s : A) (a : acc) : acc :=
    if neq_prev s (prev a) then
      if from_t a =? -1 then
        mkAcc (Some s) time (to_t a) (outs a)
      else if to_t a =? -1 then
        let to' := time in
        let o := emit_prev (prev a)
                   (from_t a, inject_Z ((to' - 1) - from_t a) + margin)%Q (outs a) in
        mkAcc (Some s) time (-1) o
      else mkAcc (Some s) (from_t a) (to_t a) (outs a)
    else mkAcc (Some s) (from_t a) (to_t a) (outs a).

  Fixpoint enc_loop (time : Z) (l : list A) (a : acc) : acc :=
    match l with
    | [] => a
    | s :: r => enc_loop (time + 1) r (enc_step time s a)
    end.

  (* "Suspended because of max time limitation": [time] is the loop variable
     after the loop, i.e. the last index. *)
  Definition enc_finish (last : Z) (a : acc) : list (A * (Z * Q)) :=
    if andb (from_t a >? -1) (to_t a =? -1) then
      emit_prev (prev a) (from_t a, inject_Z (last - from_t a) + margin)%Q (outs a)
    else outs a.

  Definition encode (prev0 : option A) (l : list A) : list (A * (Z * Q)) :=
    enc_finish (Z.of_nat (length l) - 1) (enc_loop 0 l (mkAcc prev0 (-1) (-1) [])).

  (* the Python list belonging to state [s] *)
  Definition proj (s : A) (o : list (A * (Z * Q))) : list (Z * Q) :=
    map snd (filter (fun x => eqb (fst x) s) o).

  (* ---------------- declarative specification: maximal runs ------------- *)

  (* run-length encoding: (state, start index, length) *)
  Fixpoint groups_aux (cur : A) (start len : nat) (l : list A) : list (A * nat * nat) :=
    match l with
    | [] => [(cur, start, len)]
    | x :: r => if eqb x cur then groups_aux cur start (S len) r
                else (cur, start, len) :: groups_aux x (start + len) 1 r
    end.

  Definition groups_from (start : nat) (l : list A) : list (A * nat * nat) :=
    match l with [] => [] | x :: r => groups_aux x start 1 r end.

  Definition groups (l : list A) := groups_from 0 l.

  Definition run_rec (g : A * nat * nat) : A * (Z * Q) :=
    let '(s, start, len) := g in
    (s, (Z.of_nat start, inject_Z (Z.of_nat len - 1) + margin)%Q).

  Definition runs_of (gs : list (A * nat * nat)) : list (A * (Z * Q)) :=
    map run_rec (filter (fun g => emit (fst (fst g))) gs).

  (* the specification the property states: for every maximal run of an
     emitted state, (start index, run length - 1 + margin), in order *)
  Definition runs (l : list A) : list (A * (Z * Q)) := runs_of (groups l).
End Encoder.

Arguments mkAcc {A}.
Arguments prev {A}. Arguments from_t {A}. Arguments to_t {A}. Arguments outs {A}.

(* ------------------------- concrete state types ------------------------- *)

Inductive tstate := TNone | TReady | TWorking | TWorkingAdd | TFinished.
Inductive cstate := CNone | CReady | CWorking | CFinished | CRemoved.
Inductive rstate := RFree | RWorking | RAbsence.

Definition tstate_eqb (a b : tstate) : bool :=
  match a, b with
  | TNone, TNone | TReady, TReady | TWorking, TWorking
  | TWorkingAdd, TWorkingAdd | TFinished, TFinished => true
  | _, _ => false
  end.
Definition cstate_eqb (a b : cstate) : bool :=
  match a, b with
  | CNone, CNone | CReady, CReady | CWorking, CWorking
  | CFinished, CFinished | CRemoved, CRemoved => true
  | _, _ => false
  end.
Definition rstate_eqb (a b : rstate) : bool :=
  match a, b with
  | RFree, RFree | RWorking, RWorking | RAbsence, RAbsence => true
  | _, _ => false
  end.

Definition t_emit (s : tstate) := match s with TReady | TWorking => true | _ => false end.
Definition c_emit (s : cstate) := match s with CReady | CWorking => true | _ => false end.
Definition r_emit (s : rstate) := true.

(* BaseTask.get_time_list_for_gannt_chart: (ready_time_list, working_time_list) *)
Definition gantt_task (l : list tstate) (m : Q) :=
  let o := encode tstate tstate_eqb t_emit m (Some TNone) l in
  (proj tstate tstate_eqb TReady o, proj tstate tstate_eqb TWorking o).

Definition gantt_component (l : list cstate) (m : Q) :=
  let o := encode cstate cstate_eqb c_emit m (Some CNone) l in
  (proj cstate cstate_eqb CReady o, proj cstate cstate_eqb CWorking o).

(* BaseWorker / BaseFacility: (ready(FREE), working, absence) *)
Definition gantt_resource (l : list rstate) (m : Q) :=
  let o := encode rstate rstate_eqb r_emit m None l in
  (proj rstate rstate_eqb RFree o, proj rstate rstate_eqb RWorking o,
   proj rstate rstate_eqb RAbsence o).

(* ----------------------------- chart rows ------------------------------ *)
(* datetimes are seconds (Z); timedelta * float rounds to microseconds and
   strftime("%S") truncates: for the inputs compared (unit a whole number of
   seconds, margin dyadic) this is floor of the exact rational. *)
Definition qfloor (q : Q) : Z := (Qnum q / Zpos (Qden q))%Z.

Definition row_start (init unit_s : Z) (from : Z) : Z := init + from * unit_s.
Definition row_finish (init unit_s : Z) (from : Z) (len : Q) : Z :=
  qfloor (inject_Z init + (inject_Z from + len) * inject_Z unit_s)%Q.

Definition rows (init unit_s : Z) (l : list (Z * Q)) : list (Z * Z) :=
  map (fun r => (row_start init unit_s (fst r), row_finish init unit_s (fst r) (snd r))) l.

(* --------------------------- extract queries --------------------------- *)
Section Extract.
  Variable A : Type.
  Variable eqb : A -> A -> bool.

  (* inner loops of __extract_state_*_list for one object *)
  Fixpoint all_at (log : list A) (target : A) (times : list nat) : bool :=
    match times with
    | [] => true
    | t :: r =>
        match nth_error log t with
        | None => false                      (* len(record) <= time *)
        | Some s => if eqb s target then all_at log target r else false
        end
    end.

  (* indices (positions in the owning list) of the selected objects *)
  Fixpoint extract_from (i : nat) (logs : list (list A)) (target : A) (times : list nat) : list nat :=
    match logs with
    | [] => []
    | lg :: r => if all_at lg target times then i :: extract_from (S i) r target times
                 else extract_from (S i) r target times
    end.
  Definition extract := extract_from 0.
End Extract.

(* --------------------------- set_last_datetime -------------------------- *)
(* init_datetime = last_datetime - unit_timedelta * (self.time - 1) *)
Definition set_last_datetime (last unit_s : Z) (time : Z) : Z := last - unit_s * (time - 1).

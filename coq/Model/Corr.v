(* Helpers for the correspondence check: boolean comparison of model results
   with the values recorded from the implementation, and the list of indices of
   disagreeing cases (printed by Eval vm_compute in generated cases files). *)
From Coq Require Import List ZArith QArith Bool.
Import ListNotations.

Fixpoint list_eqb {A} (e : A -> A -> bool) (a b : list A) : bool :=
  match a, b with
  | [], [] => true
  | x :: r, y :: s => e x y && list_eqb e r s
  | _, _ => false
  end.

Definition pair_eqb {A B} (ea : A -> A -> bool) (eb : B -> B -> bool) (a b : A * B) : bool :=
  ea (fst a) (fst b) && eb (snd a) (snd b).

Definition option_eqb {A} (e : A -> A -> bool) (a b : option A) : bool :=
  match a, b with
  | None, None => true
  | Some x, Some y => e x y
  | _, _ => false
  end.

Definition zq_eqb : Z * Q -> Z * Q -> bool := pair_eqb Z.eqb Qeq_bool.
Definition zz_eqb : Z * Z -> Z * Z -> bool := pair_eqb Z.eqb Z.eqb.

Fixpoint mismatches_from {C} (i : nat) (chk : C -> bool) (cs : list C) : list nat :=
  match cs with
  | [] => []
  | c :: r => if chk c then mismatches_from (S i) chk r else i :: mismatches_from (S i) chk r
  end.
Definition mismatches {C} (chk : C -> bool) (cs : list C) : list nat := mismatches_from 0 chk cs.

(* Model of the structural part of BaseProject.backward_simulate: the
   dependency lists are mutable attributes of the task / workplace objects;
   reverse_dependencies swaps them, helper "auto" tasks are spliced in for tail
   tasks with an earlier due time, and the finally-block undoes both -- whether
   the inner simulate() returned or raised. *)
From Coq Require Import List ZArith QArith Bool Arith.
From PV Require Import Model.Types Model.Sim.
Import ListNotations.
Open Scope nat_scope.

Record gstate := mkG {
  g_list : list nat;                       (* workflow.task_list (ids; helpers get fresh ids) *)
  g_in : nat -> list (nat * dep);          (* task.input_task_list *)
  g_out : nat -> list (nat * dep);         (* task.output_task_list *)
  g_wpin : nat -> list nat;                (* workplace.input_workplace_list *)
  g_wpout : nat -> list nat                (* workplace.output_workplace_list *)
}.

(* BaseWorkflow.reverse_dependencies: for the tasks in task_list *)
Definition reverse_tasks (g : gstate) : gstate :=
  mkG (g_list g)
      (fun t => if mem t (g_list g) then g_out g t else g_in g t)
      (fun t => if mem t (g_list g) then g_in g t else g_out g t)
      (g_wpin g) (g_wpout g).
(* BaseOrganization.reverse_dependencies *)
Definition reverse_wps (nwp : nat) (g : gstate) : gstate :=
  mkG (g_list g) (g_in g) (g_out g)
      (fun p => if p <? nwp then g_wpout g p else g_wpin g p)
      (fun p => if p <? nwp then g_wpin g p else g_wpout g p).

Definition pair_eqb (a b : nat * dep) : bool := Nat.eqb (fst a) (fst b) && dep_eqb (snd a) (snd b).
Fixpoint remove_pair (x : nat * dep) (l : list (nat * dep)) : list (nat * dep) :=
  match l with
  | [] => []
  | y :: r => if pair_eqb x y then r else y :: remove_pair x r
  end.

(* one helper: tail_task.append_input_task(auto_task, FS); task_list.append(auto_task) *)
Definition add_helper (g : gstate) (tail h : nat) : gstate :=
  mkG (g_list g ++ [h])
      (upd (g_in g) tail (g_in g tail ++ [(h, FS)]))
      (upd (g_out g) h (g_out g h ++ [(tail, FS)]))
      (g_wpin g) (g_wpout g).

(* helpers for the tail tasks (empty input list after the reversal) whose due
   time is smaller than the largest one; fresh ids first, first+1, ... *)
Fixpoint add_helpers (due : nat -> Z) (maxdue : Z) (g : gstate) (tails : list nat) (h : nat) : gstate * list nat :=
  match tails with
  | [] => (g, [])
  | t :: r =>
      if (due t <? maxdue)%Z then
        let (g', hs) := add_helpers due maxdue (add_helper g t h) r (S h) in (g', h :: hs)
      else add_helpers due maxdue g r h
  end.

(* finally: for each helper, remove it from the input list of its successors and from task_list *)
Definition remove_helper (g : gstate) (h : nat) : gstate :=
  let g1 := fold_left (fun x td => mkG (g_list x) (upd (g_in x) (fst td) (remove_pair (h, snd td) (g_in x (fst td))))
                                      (g_out x) (g_wpin x) (g_wpout x))
                      (g_out g h) g in
  mkG (remove_first h (g_list g1)) (g_in g1) (g_out g1) (g_wpin g1) (g_wpout g1).

Definition zmax_list (l : list Z) (d : Z) : Z := fold_left Z.max l d.

(* the structure before and after the inner simulate() (which never touches it) *)
Definition backward_prepare (nwp : nat) (consider_due : bool) (due : nat -> Z) (fresh : nat) (g : gstate) : gstate * list nat :=
  let g1 := reverse_wps nwp (reverse_tasks g) in
  if consider_due then
    let tails := filter (fun t => match g_in g1 t with [] => true | _ => false end) (g_list g1) in
    match tails with
    | [] => (g1, [])
    | t0 :: _ => add_helpers due (zmax_list (map due tails) (due t0)) g1 tails fresh
    end
  else (g1, []).

Definition backward_finally (nwp : nat) (helpers : list nat) (g : gstate) : gstate :=
  reverse_wps nwp (reverse_tasks (fold_left remove_helper helpers g)).

(* the whole call, as far as the structure is concerned; [crashed] is irrelevant
   because the finally-block runs in both cases *)
Definition backward_structure (nwp : nat) (consider_due : bool) (due : nat -> Z) (fresh : nat) (crashed : bool) (g : gstate) : gstate :=
  let (g1, hs) := backward_prepare nwp consider_due due fresh g in
  backward_finally nwp hs g1.

(* the configuration of the inner run: dependencies reversed *)
Definition rev_cfg (c : cfg) : cfg :=
  mkCfg (nT c) (nW c) (nF c) (nC c) (nTeam c) (nWP c)
    (t_name c) (t_work c) (t_progress c) (t_rate c) (t_auto c) (t_needfac c) (t_comp c)
    (t_outputs c) (t_inputs c) (t_teams c) (t_wps c) (t_fixw c) (t_fixf c)
    (t_wrule c) (t_frule c) (t_prule c) (t_due c)
    (w_team c) (w_skills c) (w_fskills c) (w_cost c) (w_solo c) (w_abs c) (w_mainwp c) (team_workers c)
    (f_wp c) (f_name c) (f_skills c) (f_cost c) (f_solo c) (f_abs c) (wp_facs c) (wp_cap c) (wp_inputs c)
    (c_size c) (c_children c) (c_parents c) (c_tasks c).

(* ---------------------------------------------------------------------
   correspondence checker (harness/props/c17.py): the structure recorded from
   the implementation before the call, at the first observer call of the inner
   run (helpers numbered fresh, fresh+1, ... in task_list order) and after the
   call, as lists indexed by task / workplace number *)
From PV Require Import Model.Corr.
Definition shot := (list nat * list (list (nat * nat)) * list (list (nat * nat)) * list (list nat) * list (list nat))%type.
Definition dep_of (n : nat) : dep := match n with 0 => FS | 1 => SS | 2 => FF | _ => SF end.
Definition g_of (x : shot) : gstate :=
  let '(tl, ins, outs, wi, wo) := x in
  mkG tl (fun t => map (fun e => (fst e, dep_of (snd e))) (nth t ins []))
         (fun t => map (fun e => (fst e, dep_of (snd e))) (nth t outs []))
         (fun p => nth p wi []) (fun p => nth p wo []).
Definition nd_eqb : nat * dep -> nat * dep -> bool := pair_eqb Nat.eqb dep_eqb.
Definition same_graph (n nwp : nat) (a b : gstate) : bool :=
  list_eqb Nat.eqb (g_list a) (g_list b)
  && forallb (fun t => list_eqb nd_eqb (g_in a t) (g_in b t) && list_eqb nd_eqb (g_out a t) (g_out b t)) (seq 0 n)
  && forallb (fun p => list_eqb Nat.eqb (g_wpin a p) (g_wpin b p) && list_eqb Nat.eqb (g_wpout a p) (g_wpout b p)) (seq 0 nwp).
(* (fresh, nwp, consider_due, due times, before, inner (None if the call raised before the inner run), after) *)
Definition chk_backward (x : nat * nat * bool * list Z * shot * option shot * shot) : bool :=
  let '(fresh, nwp, cd, dues, before, inner, after) := x in
  let g := g_of before in
  let (g1, hs) := backward_prepare nwp cd (fun t => nth t dues 0%Z) fresh g in
  match inner with
  | Some i => same_graph (fresh + length hs) nwp g1 (g_of i)
  | None => true
  end
  && same_graph fresh nwp (backward_finally nwp (rev hs) g1) (g_of after)
  && same_graph fresh nwp (backward_finally nwp hs g1) (g_of after).

(* Correspondence checkers for the four sort functions on arbitrary lists
   (see harness/props/c11.py): a sort case is encoded as a configuration and a
   project state, and the model's own sort functions are applied to it. *)
From Coq Require Import List ZArith QArith Bool Arith.
From PV Require Import Model.Types Model.Sim Model.Corr Model.GanttCorr.
Import ListNotations.
Open Scope nat_scope.

Definition nthQ (l : list Q) (i : nat) : Q := nth i l 0%Q.

Definition base_cfg : cfg :=
  mkCfg 0 0 0 0 0 0
    (fun t => t) (fun _ => 0%Q) (fun _ => 0%Q) (fun _ => 1%Q) (fun _ => false) (fun _ => false) (fun _ => None)
    (fun _ => []) (fun _ => []) (fun _ => []) (fun _ => []) (fun _ => None) (fun _ => None)
    (fun _ => (-1)%Z) (fun _ => 0%Z) (fun _ => 0%Z) (fun _ => (-1)%Z)
    (fun _ => 0) (fun _ => []) (fun _ => []) (fun _ => 0%Q) (fun _ => false) (fun _ => []) (fun _ => None)
    (fun _ => [])
    (fun _ => 0) (fun _ => 0) (fun _ => []) (fun _ => 0%Q) (fun _ => false) (fun _ => [])
    (fun _ => []) (fun _ => 0%Q) (fun _ => [])
    (fun _ => 0%Q) (fun _ => []) (fun _ => []) (fun _ => []).

(* tasks: (rule, works, est, lst, rem, logs, cpl, expected) *)
Definition chk_sort_task (x : Z * list Q * list Q * list Q * list Q * list (list Z) * Q * list nat) : bool :=
  let '(rule, works, est, lst, rem, logs, cp, expected) := x in
  let n := length works in
  let c := mkCfg n 0 0 0 0 0
    (fun t => t) (nthQ works) (fun _ => 0%Q) (fun _ => 1%Q) (fun _ => false) (fun _ => false) (fun _ => None)
    (fun _ => []) (fun _ => []) (fun _ => []) (fun _ => []) (fun _ => None) (fun _ => None)
    (fun _ => (-1)%Z) (fun _ => 0%Z) (fun _ => 0%Z) (fun _ => (-1)%Z)
    (fun _ => 0) (fun _ => []) (fun _ => []) (fun _ => 0%Q) (fun _ => false) (fun _ => []) (fun _ => None)
    (fun _ => [])
    (fun _ => 0) (fun _ => 0) (fun _ => []) (fun _ => 0%Q) (fun _ => false) (fun _ => [])
    (fun _ => []) (fun _ => 0%Q) (fun _ => [])
    (fun _ => 0%Q) (fun _ => []) (fun _ => []) (fun _ => []) in
  let s0 := blank c in
  let s := mkP 0 StNone cp
             (fun t => mkTL TNone (nthQ rem t) [] [] (nthQ est t) 0%Q (nthQ lst t) 0%Q)
             (wd s0) (fd s0) (cd s0) (wpc s0)
             (fun t => mkTLog (map tstate_of (nth t logs [])) [] [] [])
             (wl s0) (fl s0) (cl s0) (wpl s0) (teaml s0) [] [] in
  list_eqb Nat.eqb (sort_tasks c rule s (seq 0 n)) expected.

(* workers: (rule, name, target, [(cost, skills, mainwp)], expected) *)
Definition chk_sort_worker
  (x : Z * nat * option nat * list (Q * list (nat * Q) * option nat) * list nat) : bool :=
  let '(rule, name, target, ws, expected) := x in
  let n := length ws in
  let get := fun w => nth w ws (0%Q, [], None) in
  let c := mkCfg 1 n 0 0 0 0
    (fun _ => name) (fun _ => 0%Q) (fun _ => 0%Q) (fun _ => 1%Q) (fun _ => false) (fun _ => false) (fun _ => None)
    (fun _ => []) (fun _ => []) (fun _ => []) (fun _ => []) (fun _ => None) (fun _ => None)
    (fun _ => (-1)%Z) (fun _ => 0%Z) (fun _ => 0%Z) (fun _ => (-1)%Z)
    (fun _ => 0) (fun w => snd (fst (get w))) (fun _ => []) (fun w => fst (fst (get w))) (fun _ => false) (fun _ => [])
    (fun w => snd (get w))
    (fun _ => [])
    (fun _ => 0) (fun _ => 0) (fun _ => []) (fun _ => 0%Q) (fun _ => false) (fun _ => [])
    (fun _ => []) (fun _ => 0%Q) (fun _ => [])
    (fun _ => 0%Q) (fun _ => []) (fun _ => []) (fun _ => []) in
  list_eqb Nat.eqb (sort_workers c rule 0 target (seq 0 n)) expected.

(* facilities: (rule, name, [(cost, skills)], expected) *)
Definition chk_sort_fac (x : Z * nat * list (Q * list (nat * Q)) * list nat) : bool :=
  let '(rule, name, fs, expected) := x in
  let n := length fs in
  let get := fun f => nth f fs (0%Q, []) in
  let c := mkCfg 1 0 n 0 0 0
    (fun _ => name) (fun _ => 0%Q) (fun _ => 0%Q) (fun _ => 1%Q) (fun _ => false) (fun _ => false) (fun _ => None)
    (fun _ => []) (fun _ => []) (fun _ => []) (fun _ => []) (fun _ => None) (fun _ => None)
    (fun _ => (-1)%Z) (fun _ => 0%Z) (fun _ => 0%Z) (fun _ => (-1)%Z)
    (fun _ => 0) (fun _ => []) (fun _ => []) (fun _ => 0%Q) (fun _ => false) (fun _ => []) (fun _ => None)
    (fun _ => [])
    (fun _ => 0) (fun f => f) (fun f => snd (get f)) (fun f => fst (get f)) (fun _ => false) (fun _ => [])
    (fun _ => []) (fun _ => 0%Q) (fun _ => [])
    (fun _ => 0%Q) (fun _ => []) (fun _ => []) (fun _ => []) in
  list_eqb Nat.eqb (sort_facs c rule 0 (seq 0 n)) expected.

(* workplaces: (rule, name, [(cap, placed sizes, [facility skills])], expected);
   facility ids and component ids are allotted consecutively *)
Fixpoint offsets (ls : list nat) (start : nat) : list nat :=
  match ls with [] => [] | n :: r => start :: offsets r (start + n) end.

Definition chk_sort_wp (x : Z * nat * list (Q * list Q * list (list (nat * Q))) * list nat) : bool :=
  let '(rule, name, wps, expected) := x in
  let n := length wps in
  let get := fun p => nth p wps (0%Q, [], []) in
  let all_sizes := flat_map (fun w => snd (fst w)) wps in
  let all_fsk := flat_map (fun w => snd w) wps in
  let coff := offsets (map (fun w => length (snd (fst w))) wps) 0 in
  let foff := offsets (map (fun w => length (snd w)) wps) 0 in
  let c := mkCfg 1 0 (length all_fsk) (length all_sizes) 0 n
    (fun _ => name) (fun _ => 0%Q) (fun _ => 0%Q) (fun _ => 1%Q) (fun _ => false) (fun _ => false) (fun _ => None)
    (fun _ => []) (fun _ => []) (fun _ => []) (fun _ => []) (fun _ => None) (fun _ => None)
    (fun _ => (-1)%Z) (fun _ => 0%Z) (fun _ => 0%Z) (fun _ => (-1)%Z)
    (fun _ => 0) (fun _ => []) (fun _ => []) (fun _ => 0%Q) (fun _ => false) (fun _ => []) (fun _ => None)
    (fun _ => [])
    (fun _ => 0) (fun f => f) (fun f => nth f all_fsk []) (fun _ => 0%Q) (fun _ => false) (fun _ => [])
    (fun p => seq (nth p foff 0) (length (snd (get p)))) (fun p => fst (fst (get p))) (fun _ => [])
    (nthQ all_sizes) (fun _ => []) (fun _ => []) (fun _ => []) in
  let s0 := blank c in
  let s := with_wpc s0 (fun p => seq (nth p coff 0) (length (snd (fst (get p))))) in
  list_eqb Nat.eqb (sort_wps c rule s 0 (seq 0 n)) expected.

(* A concrete reading of the conversion shapes of Model/JsonSchema.v: JSON
   values, attribute values, and for every shape the Python expression it
   stands for.  It shows that the hypothesis of the round-trip theorem (every
   compatible reader/writer pair satisfies write (read (write v)) = write v)
   is met by the conversions the shapes name, including the lossy ones
   (float(), strftime without microseconds) and ill-typed attribute values. *)
From Coq Require Import List String ZArith Bool.
From PV Require Import Model.JsonSchema.
Import ListNotations.
Open Scope string_scope.

(* JSON values.  A float is kept as the token json.dump prints for it, an int
   as its value; [JFloat] of an int token is what float(int) gives. *)
Inductive jv :=
| JNull | JBool (b : bool) | JInt (z : Z) | JFloat (tok : string) | JFloatOfInt (z : Z)
| JStr (s : string) | JList (l : list jv) | JDict (d : list (string * jv)).

(* attribute values of a live object *)
Inductive av :=
| AJ (j : jv)                                   (* anything stored as it is written *)
| AEnum (z : Z)                                 (* an IntEnum member *)
| AList (l : list av)
| ARef (id : string) (addr : nat)               (* another object of the project: its ID and which object it is *)
| APair (a b : av)
| ATimedelta (seconds_tok : string)             (* total_seconds() printed by str(float) *)
| ADate (second : Z) (micro : Z)                (* a datetime: whole seconds since some origin, microseconds *)
| AObjs (saved : list jv).                      (* contained objects, each represented by what it exports *)

Section Concrete.
(* the objects of the project the file is read into: ID -> object *)
Variable env : string -> nat.

Definition to_float (j : jv) : jv :=
  match j with JInt z => JFloatOfInt z | JFloat t => JFloat t | JFloatOfInt z => JFloatOfInt z | _ => JNull end.
Definition to_int (a : av) : jv :=
  match a with AEnum z => JInt z | AJ (JInt z) => JInt z | AJ (JBool b) => JInt (if b then 1 else 0) | _ => JNull end.
Definition ref_id (a : av) : jv := match a with ARef id _ => JStr id | _ => JNull end.

Definition out (k : okind) (a : av) : jv :=
  match k with
  | OPlain | OOptPlain => match a with AJ j => j | _ => JNull end
  | OInt => to_int a
  | OListInt => match a with AList l => JList (map to_int l) | _ => JNull end
  | OListFloat => match a with AJ (JList l) => JList (map to_float l) | _ => JNull end
  | OListId => match a with AList l => JList (map ref_id l) | _ => JNull end
  | OListIdDep => match a with
                  | AList l => JList (map (fun p => match p with APair r d => JList [ref_id r; to_int d] | _ => JNull end) l)
                  | _ => JNull end
  | OOptId => match a with ARef id _ => JStr id | _ => JNull end     (* None is written as null *)
  | OSecondsStr => match a with ATimedelta t => JStr t | _ => JNull end
  | ODateStr => match a with ADate s _ => JInt s | _ => JNull end    (* the format has no microseconds *)
  | ONested => match a with AObjs l => JList l | _ => JNull end
  | OUnknown => JNull
  end.

Definition enum_of (j : jv) : av := match j with JInt z => AEnum z | _ => AJ j end.
Definition ref_of (j : jv) : av := match j with JStr id => ARef id (env id) | _ => AJ j end.

Definition inn (k : ikind) (l : lkind) (j : option jv) : av :=
  match j with
  | None => AJ JNull
  | Some j =>
      match k, l with
      | (IPlain | IPlainDefault), LNone => AJ j
      | (IEnum | IEnumDefault), LNone => enum_of j
      | IListEnum, LNone => match j with JList l => AList (map enum_of l) | _ => AJ j end
      | (IPlain | IPlainDefault), LListId => match j with JList l => AList (map ref_of l) | _ => AJ j end
      | IPlain, LListIdDep =>
          match j with
          | JList l => AList (map (fun p => match p with JList [r; d] => APair (ref_of r) (enum_of d) | _ => AJ p end) l)
          | _ => AJ j end
      | IPlain, LOptId => ref_of j
      | ISeconds, LNone => match j with JStr t => ATimedelta t | _ => AJ j end
      | IDate, LNone => match j with JInt s => ADate s 0 | _ => AJ j end
      | INested, LNone => match j with JList l => AObjs l | _ => AJ j end
      | _, _ => AJ j
      end
  end.

Lemma to_int_enum_of a : to_int (enum_of (to_int a)) = to_int a.
Proof. destruct a as [[]| | | | | | |]; reflexivity. Qed.
Lemma ref_id_ref_of a : ref_id (ref_of (ref_id a)) = ref_id a.
Proof. destruct a; reflexivity. Qed.
Lemma to_float_idem j : to_float (to_float j) = to_float j.
Proof. destruct j; reflexivity. Qed.

Lemma map_map_id {A B} (f : A -> B) (g : B -> A) l : (forall x, f (g (f x)) = f x) -> map f (map g (map f l)) = map f l.
Proof. intros H. rewrite !map_map. apply map_ext. exact H. Qed.

(* the hypothesis of the round-trip theorem holds for these conversions *)
Theorem law : forall ko ki l v, compatible ko ki l = true -> out ko (inn ki l (Some (out ko v))) = out ko v.
Proof.
  intros ko ki l v H.
  destruct ko; destruct ki; destruct l; try discriminate H; cbn [out inn].
  all: try (destruct v; reflexivity).
  all: try apply to_int_enum_of.
  all: try (destruct v; try reflexivity; cbn; f_equal; apply map_map_id; first [apply to_int_enum_of | apply ref_id_ref_of]).
  all: try (destruct v as [[]| | | | | | |]; try reflexivity; cbn; f_equal; rewrite map_map; apply map_ext; apply to_float_idem).
  all: destruct v; try reflexivity; cbn; f_equal; rewrite !map_map; apply map_ext; intros p;
       destruct p; try reflexivity; cbn; rewrite ref_id_ref_of, to_int_enum_of; reflexivity.
Qed.

End Concrete.

(* ---------------------------------------------------- correspondence aid *)
(* decidable equality of JSON values, and the check evaluated by the harness:
   the writer of shape k applied to an attribute value gives the expected
   JSON value (computed by the Python expression the shape names) *)
Fixpoint jv_eqb (a b : jv) {struct a} : bool :=
  match a, b with
  | JNull, JNull => true
  | JBool x, JBool y => Bool.eqb x y
  | JInt x, JInt y => Z.eqb x y
  | JFloat x, JFloat y => String.eqb x y
  | JFloatOfInt x, JFloatOfInt y => Z.eqb x y
  | JStr x, JStr y => String.eqb x y
  | JList x, JList y =>
      (fix go (l m : list jv) : bool :=
         match l, m with
         | [], [] => true
         | p :: l', q :: m' => jv_eqb p q && go l' m'
         | _, _ => false
         end) x y
  | JDict x, JDict y =>
      (fix go (l m : list (string * jv)) : bool :=
         match l, m with
         | [], [] => true
         | (k1, p) :: l', (k2, q) :: m' => String.eqb k1 k2 && jv_eqb p q && go l' m'
         | _, _ => false
         end) x y
  | _, _ => false
  end.

Definition chk_out (c : okind * av * jv) : bool := let '(k, a, j) := c in jv_eqb (out k a) j.

(* reader followed by writer on a written value: what write(read(j)) gives in
   Python for the reader expression the shape names (env: every ID is found) *)
Definition chk_rt (c : okind * ikind * lkind * jv * jv) : bool :=
  let '(ko, ki, l, j, expected) := c in jv_eqb (out ko (inn (fun _ => 0) ki l (Some j))) expected.

(* BaseProject.reverse_log_information: every per-step log of every object is
   reversed; the project's absence steps are mirrored (steps beyond the end
   are dropped). *)
From Coq Require Import List ZArith QArith Bool Arith.
From PV Require Import Model.Types Model.Sim Model.LogEdit.
Import ListNotations.
Open Scope nat_scope.

Definition rev_tlog (g : tlog) : tlog := mkTLog (rev (l_st g)) (rev (l_rem g)) (rev (l_aw g)) (rev (l_af g)).
Definition rev_rlog (g : rlog) : rlog := mkRLog (rev (rl_st g)) (rev (rl_cost g)) (rev (rl_asg g)).
Definition rev_clog (g : clog) : clog := mkCLog (rev (cl_st g)) (rev (cl_pw g)).
Definition rev_wplog (g : wplog) : wplog := mkWPLog (rev (wl_cost g)) (rev (wl_pc g)).

Definition reverse_log (c : cfg) (e : estate) : estate :=
  let (ab, s) := e in
  let total := length (costl s) in
  (stable_sort nat Nat.leb (map (fun a => total - 1 - a) (filter (fun a => a <? total) ab)),
   edit_logs c s (fun _ => rev_tlog) rev_rlog rev_clog rev_wplog (@rev Q) (time s)).

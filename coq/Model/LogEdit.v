(* Model of remove_absence_time_list / insert_absence_time_list of BaseProject
   and of every class below it (after the repairs F7-F9, F14 and the "a list
   of steps denotes a set" repair).  The project's absence_time_list attribute
   is carried next to the project state. *)
From Coq Require Import List ZArith QArith Bool Arith.
From PV Require Import Model.Types Model.Sim.
Import ListNotations.
Open Scope nat_scope.

Section ListOps.
  Variable A : Type.

  Fixpoint remove_at (k : nat) (l : list A) : list A :=
    match k, l with
    | _, [] => []
    | 0, _ :: r => r
    | S k', x :: r => x :: remove_at k' r
    end.

  Fixpoint insert_at (k : nat) (v : A) (l : list A) : list A :=
    match k, l with
    | 0, _ => v :: l
    | S k', [] => [v]
    | S k', x :: r => x :: insert_at k' v r
    end.

  (* "if step_time < len(log): log.pop(step_time)" *)
  Definition rem_one (l : list A) (k : nat) : list A := if k <? length l then remove_at k l else l.
  (* "if step_time < len(log): log.insert(step_time, value)"; the value may
     depend on the position and on the log as it is at that moment *)
  Definition ins_one (mk : nat -> list A -> A) (l : list A) (k : nat) : list A :=
    if k <? length l then insert_at k (mk k l) l else l.

  (* steps : ascending; removal visits them in descending order *)
  Definition rem_seq (steps : list nat) (l : list A) : list A := fold_left rem_one (rev steps) l.
  Definition ins_seq (mk : nat -> list A -> A) (steps : list nat) (l : list A) : list A :=
    fold_left (ins_one mk) steps l.
End ListOps.
Arguments remove_at {A}. Arguments insert_at {A}. Arguments rem_one {A}. Arguments ins_one {A}.
Arguments rem_seq {A}. Arguments ins_seq {A}.

(* sorted(set(steps)) *)
Definition sorted_set (l : list nat) : list nat := stable_sort nat Nat.leb (nodup Nat.eq_dec l).

(* order-preserving removal of repeated elements and of the ones already listed *)
Fixpoint new_steps (cur acc l : list nat) : list nat :=
  match l with
  | [] => acc
  | x :: r => if mem x cur || mem x acc then new_steps cur acc r else new_steps cur (acc ++ [x]) r
  end.

Definition prev {A} (d : A) (k : nat) (l : list A) : A := match k with 0 => d | S j => nth j l d end.

(* state inserted into a task / component log *)
Definition ins_tstate (k : nat) (l : list tstate) : tstate :=
  match k with
  | 0 => TNone
  | S j =>
      let b := nth j l TNone in let a := nth k l TNone in
      match b with
      | TWorking => match a with TFinished => TFinished | _ => TReady end
      | TNone => match a with TWorking => TReady | _ => b end
      | _ => b
      end
  end.
Definition ins_cstate (k : nat) (l : list cstate) : cstate :=
  match k with
  | 0 => CNone
  | S j =>
      let b := nth j l CNone in let a := nth k l CNone in
      match b with
      | CWorking => match a with CFinished => CFinished | _ => CReady end
      | CNone => match a with CWorking => CReady | _ => b end
      | _ => b
      end
  end.

Section Project.
Variable c : cfg.

Definition edit_tlog (f : forall A, list A -> list A) (x : tlog) : tlog :=
  mkTLog (f _ (l_st x)) (f _ (l_rem x)) (f _ (l_aw x)) (f _ (l_af x)).

(* BaseTask.remove_absence_time_list: one guard (the state log) for all four logs *)
Definition task_remove (steps : list nat) (x : tlog) : tlog :=
  fold_left (fun g k => if k <? length (l_st g)
                        then mkTLog (remove_at k (l_st g)) (remove_at k (l_rem g)) (remove_at k (l_aw g)) (remove_at k (l_af g))
                        else g) (rev steps) x.
Definition task_insert (t : nat) (steps : list nat) (x : tlog) : tlog :=
  fold_left (fun g k => if k <? length (l_st g)
                        then mkTLog (insert_at k (ins_tstate k (l_st g)) (l_st g))
                                    (insert_at k (prev (t_work c t * (1 - t_progress c t))%Q k (l_rem g)) (l_rem g))
                                    (insert_at k (prev [] k (l_aw g)) (l_aw g))
                                    (insert_at k (prev [] k (l_af g)) (l_af g))
                        else g) steps x.

Definition res_remove (steps : list nat) (x : rlog) : rlog :=
  fold_left (fun g k => if k <? length (rl_st g)
                        then mkRLog (remove_at k (rl_st g)) (remove_at k (rl_cost g)) (remove_at k (rl_asg g))
                        else g) (rev steps) x.
Definition res_insert (steps : list nat) (x : rlog) : rlog :=
  fold_left (fun g k => if k <? length (rl_st g)
                        then mkRLog (insert_at k RFree (rl_st g)) (insert_at k 0%Q (rl_cost g))
                                    (insert_at k (prev [] k (rl_asg g)) (rl_asg g))
                        else g) steps x.

Definition comp_remove (steps : list nat) (x : clog) : clog :=
  fold_left (fun g k => if k <? length (cl_st g)
                        then mkCLog (remove_at k (cl_st g)) (remove_at k (cl_pw g)) else g) (rev steps) x.
Definition comp_insert (steps : list nat) (x : clog) : clog :=
  fold_left (fun g k => if k <? length (cl_st g)
                        then mkCLog (insert_at k (ins_cstate k (cl_st g)) (cl_st g))
                                    (insert_at k (prev None k (cl_pw g)) (cl_pw g))
                        else g) steps x.

(* BaseWorkplace: cost_list and placed_component_id_record are guarded separately *)
Definition wp_remove (steps : list nat) (x : wplog) : wplog :=
  mkWPLog (rem_seq steps (wl_cost x)) (rem_seq steps (wl_pc x)).
Definition wp_insert (steps : list nat) (x : wplog) : wplog :=
  mkWPLog (ins_seq (fun _ _ => 0%Q) steps (wl_cost x)) (ins_seq (fun k l => prev [] k l) steps (wl_pc x)).

Definition cost_remove (steps : list nat) (l : list Q) : list Q := rem_seq steps l.
Definition cost_insert (steps : list nat) (l : list Q) : list Q := ins_seq (fun _ _ => 0%Q) steps l.

(* number of steps really removed from / inserted into the project cost list *)
Definition removed_count (steps : list nat) (l : list Q) : nat := length l - length (rem_seq steps l).
Definition inserted_count (steps : list nat) (l : list Q) : nat := length (cost_insert steps l) - length l.

(* project state with its absence_time_list attribute *)
Definition estate := (list nat * pstate)%type.

Definition edit_logs (s : pstate) (ft : nat -> tlog -> tlog) (fr : rlog -> rlog) (fc : clog -> clog)
           (fw : wplog -> wplog) (fq : list Q -> list Q) (tm : nat) : pstate :=
  mkP tm (status s) (cpl s) (td s) (wd s) (fd s) (cd s) (wpc s)
      (tab (nT c) (fun t => ft t (tl s t)) (tl s))
      (tab (nW c) (fun w => fr (wl s w)) (wl s))
      (tab (nF c) (fun f => fr (fl s f)) (fl s))
      (tab (nC c) (fun k => fc (cl s k)) (cl s))
      (tab (nWP c) (fun p => fw (wpl s p)) (wpl s))
      (tab (nTeam c) (fun g => fq (teaml s g)) (teaml s))
      (fq (orgl s)) (fq (costl s)).

(* BaseProject.remove_absence_time_list *)
Definition remove_absence (e : estate) : estate :=
  let (ab, s) := e in
  let steps := sorted_set ab in
  ([], edit_logs s (fun _ => task_remove steps) (res_remove steps) (comp_remove steps) (wp_remove steps)
                 (cost_remove steps) (time s - removed_count steps (costl s))).

(* BaseProject.insert_absence_time_list *)
Definition insert_absence (l : list nat) (e : estate) : estate :=
  let (ab, s) := e in
  let nw := new_steps ab [] l in
  let steps := stable_sort nat Nat.leb nw in
  (ab ++ nw, edit_logs s (fun t => task_insert t steps) (res_insert steps) (comp_insert steps) (wp_insert steps)
                       (cost_insert steps) (time s + inserted_count steps (costl s))).

End Project.

(* Executable model of BaseProject.simulate and the functions it calls.
   Definitions only.  Each function names the Python it mirrors. *)
From Coq Require Import List ZArith QArith Bool Arith.
From PV Require Import Model.Types.
Import ListNotations.
Open Scope nat_scope.

Section WithCfg.
Variable c : cfg.

Definition tasks := seq 0 (nT c).
Definition all_workers : list nat := flat_map (team_workers c) (seq 0 (nTeam c)).
Definition all_facs : list nat := flat_map (wp_facs c) (seq 0 (nWP c)).

(* ------------------------------------------------------------------ skills *)
Definition w_skill (w t : nat) : option Q := assoc (t_name c t) (w_skills c w).
Definition f_skill (f t : nat) : option Q := assoc (t_name c t) (f_skills c f).
(* has_workamount_skill: key present and value > 0 + error_tol *)
Definition has_wskill (w t : nat) : bool :=
  match w_skill w t with Some v => Qltb tol v | None => false end.
Definition has_fskill (f t : nat) : bool :=
  match f_skill f t with Some v => Qltb tol v | None => false end.
(* BaseWorker.has_facility_skill(facility.name) *)
Definition w_operates (w f : nat) : bool :=
  match assoc (f_name c f) (w_fskills c w) with Some v => Qltb tol v | None => false end.
(* __is_allocated_worker / __is_allocated_facility *)
Definition w_targets (w t : nat) : bool := mem (w_team c w) (t_teams c t).
Definition f_targets (f t : nat) : bool := mem (f_wp c f) (t_wps c t).

Definition skill_val (o : option Q) : Q := match o with Some v => v | None => 0%Q end.

(* ------------------------------------------------------------------- gates *)
(* __check_ready: FS predecessors FINISHED, SS predecessors started *)
Definition ready_gate (s : pstate) (t : nat) : bool :=
  forallb (fun pd => match snd pd with
                     | FS => is_fin (st (td s (fst pd)))
                     | SS => started (st (td s (fst pd)))
                     | _ => true end) (t_inputs c t).
(* __check_finished: FF predecessors FINISHED, SF predecessors started *)
Definition finish_gate (s : pstate) (t : nat) : bool :=
  forallb (fun pd => match snd pd with
                     | FF => is_fin (st (td s (fst pd)))
                     | SF => started (st (td s (fst pd)))
                     | _ => true end) (t_inputs c t).

(* ---------------------------------------------------------- check_finished *)
Definition zero_work (s : pstate) (t : nat) : bool :=
  is_working (st (td s t)) && Qltb (rem (td s t)) tol.

(* "for worker in task.allocated_worker_list: if all assigned FINISHED: FREE; remove(task)" *)
Definition release_one (s : pstate) (t : nat) (d : nat -> rlive) (r : nat) : nat -> rlive :=
  let x := d r in
  if negb (match asg x with [] => true | _ => false end)
     && forallb (fun t' => is_fin (st (td s t'))) (asg x)
  then upd d r (mkRL RFree (remove_first t (asg x)))
  else d.

Definition finish_task (s : pstate) (t : nat) : pstate :=
  let x := td s t in
  (* state := FINISHED; remaining := 0 *)
  let s1 := with_td s (upd (td s) t (set_rem (set_st x TFinished) 0%Q)) in
  let wd' := fold_left (release_one s1 t) (aw x) (wd s1) in
  let s2 := with_wd s1 wd' in
  let s3 := with_td s2 (upd (td s2) t (set_aw (td s2 t) [])) in
  if t_needfac c t then
    let fd' := fold_left (release_one s3 t) (af x) (fd s3) in
    let s4 := with_fd s3 fd' in
    with_td s4 (upd (td s4) t (set_af (td s4 t) []))
  else s3.

(* one pass over the candidates (computed at the start of the pass) *)
Definition finish_pass (s : pstate) : pstate * bool :=
  let cand := filter (zero_work s) tasks in
  fold_left (fun (acc : pstate * bool) t =>
               let (s', ch) := acc in
               if finish_gate s' t then (finish_task s' t, true) else (s', ch))
            cand (s, false).

(* "while changed" *)
Fixpoint finish_loop (fuel : nat) (s : pstate) : pstate :=
  match fuel with
  | 0 => s
  | S f => let (s', ch) := finish_pass s in if ch then finish_loop f s' else s'
  end.
Definition check_finished (s : pstate) : pstate := finish_loop (S (nT c)) s.

(* ------------------------------------------------------------- check_ready *)
Definition check_ready (s : pstate) : pstate :=
  with_td s (tab (nT c) (fun t => let x := td s t in
                      if is_none (st x) && ready_gate s t then set_st x TReady else x) (td s)).

(* --------------------------------------------------------- component state *)
Definition ctask_states (s : pstate) (k : nat) : list tstate := map (fun t => st (td s t)) (c_tasks c k).

(* BaseComponent.check_state = __check_ready; __check_working; __check_finished *)
Definition comp_check (s : pstate) (k : nat) : cstate :=
  let sts := ctask_states s k in
  let s0 := cst (cd s k) in
  let s1 := if negb (forallb is_working sts) && negb (forallb is_fin sts) && existsb is_ready sts
            then CReady else s0 in
  let s2 := if existsb is_working sts then CWorking else s1 in
  if forallb is_fin sts then CFinished else s2.

Definition product_check_state (s : pstate) : pstate :=
  with_cd s (tab (nC c) (fun k => mkCL (comp_check s k) (pw (cd s k))) (cd s)).

(* ---------------------------------------------------------------- placement *)
(* recursion over the component forest with fuel = number of components *)
Fixpoint tree_all (fuel : nat) (p : nat -> bool) (k : nat) : bool :=
  match fuel with
  | 0 => p k
  | S f => p k && forallb (tree_all f p) (c_children c k)
  end.

Fixpoint tree_nodes (fuel : nat) (k : nat) : list nat :=
  match fuel with
  | 0 => [k]
  | S f => k :: flat_map (tree_nodes f) (c_children c k)
  end.
Definition tree (k : nat) : list nat := tree_nodes (nC c) k.

(* take one component away from the workplace where it is placed *)
Definition detach_one (s : pstate) (k : nat) : pstate :=
  match pw (cd s k) with
  | None => s
  | Some p =>
      let s1 := with_wpc s (upd (wpc s) p (remove_first k (wpc s p))) in
      with_cd s1 (upd (cd s1) k (mkCL (cst (cd s1 k)) None))
  end.
Definition detach_tree (s : pstate) (k : nat) : pstate := fold_left detach_one (tree k) s.

(* BaseProduct.check_removing_placed_workplace (after the repair: the whole
   assembly must be finished) *)
Definition comp_all_fin (s : pstate) (k : nat) : bool :=
  forallb (fun t => is_fin (st (td s t))) (c_tasks c k).
Definition check_removing (crank : list nat) (s : pstate) : pstate :=
  let tops := filter (fun k => match c_parents c k with [] => true | _ => false end) (seq 0 (nC c)) in
  let rem_set := filter (fun k => tree_all (nC c) (comp_all_fin s) k) tops in
  (* a set: visited in the order given by crank (any order gives the same result) *)
  let order := filter (fun k => mem k rem_set) crank in
  fold_left detach_tree order s.

(* ---------------------------------------------------------------------- PERT *)
Definition Qmax (a b : Q) := if Qleb a b then b else a.

Definition dedup_add (x : nat) (l : list nat) : list nat := if mem x l then l else l ++ [x].

(* one edge of the forward pass *)
Definition fwd_edge (s : pstate) (src : nat) (e : nat * dep) : pstate :=
  let nxt := fst e in
  let xi := td s src in
  let xn := td s nxt in
  let pre_est := est xn in
  let '(e1, f1) :=
    match snd e with
    | FS => let a := (est xi + rem xi)%Q in (a, (a + rem xn)%Q)
    | SS => let a := (est xi + 0)%Q in (a, (a + rem xn)%Q)
    | FF => let a := (est xi + 0)%Q in
            let b := (a + rem xn)%Q in (a, if Qltb b (eft xi) then eft xi else b)
    | SF => let a := (est xi + 0)%Q in
            let b := (a + rem xn)%Q in (a, if Qltb b (est xi) then est xi else b)
    end in
  if Qleb pre_est e1 then with_td s (upd (td s) nxt (set_est_eft xn e1 f1)) else s.

Definition fwd_round (s : pstate) (front : list nat) : pstate * list nat :=
  fold_left (fun (acc : pstate * list nat) src =>
               fold_left (fun (a2 : pstate * list nat) e =>
                            (fwd_edge (fst a2) src e, dedup_add (fst e) (snd a2)))
                         (t_outputs c src) acc)
            front (s, []).

Fixpoint fwd_loop (fuel : nat) (s : pstate) (front : list nat) : pstate :=
  match fuel with
  | 0 => s
  | S f => match front with
           | [] => s
           | _ => let (s', nxt) := fwd_round s front in fwd_loop f s' nxt
           end
  end.

Definition inject_nat (n : nat) : Q := inject_Z (Z.of_nat n).

(* __set_est_eft_data(time) *)
Definition pert_forward (tm : Q) (s : pstate) : pstate :=
  let s1 := with_td s (tab (nT c) (fun t => let x := td s t in
                  match t_inputs c t with
                  | [] => set_est_eft x tm (tm + rem x)%Q
                  | _ => set_est_eft x tm (eft x)
                  end) (td s)) in
  let heads := filter (fun t => match t_inputs c t with [] => true | _ => false end) tasks in
  fwd_loop (S (nT c)) s1 heads.

Definition bwd_edge (s : pstate) (src : nat) (e : nat * dep) : pstate :=
  let prv := fst e in
  let xo := td s src in
  let xp := td s prv in
  let pre_lft := lft xp in
  let '(l1, f1) :=      (* (lst, lft) *)
    match snd e with
    | FS => let f := lst xo in ((f - rem xp)%Q, f)
    | SS => let l := lst xo in (l, (l + rem xp)%Q)
    | FF => let l := lst xo in
            let f := (l + rem xp)%Q in (l, if Qltb (lft xo) f then lft xo else f)
    | SF => let l := lst xo in
            let f := (l + rem xp)%Q in ((if Qltb (lft xo) l then lft xo else l), f)
    end in
  if Qltb pre_lft 0 || Qleb f1 pre_lft
  then with_td s (upd (td s) prv (set_lst_lft xp l1 f1)) else s.

Definition bwd_round (s : pstate) (front : list nat) : pstate * list nat :=
  fold_left (fun (acc : pstate * list nat) src =>
               fold_left (fun (a2 : pstate * list nat) e =>
                            (bwd_edge (fst a2) src e, dedup_add (fst e) (snd a2)))
                         (t_inputs c src) acc)
            front (s, []).

Fixpoint bwd_loop (fuel : nat) (s : pstate) (front : list nat) : pstate :=
  match fuel with
  | 0 => s
  | S f => match front with
           | [] => s
           | _ => let (s', nxt) := bwd_round s front in bwd_loop f s' nxt
           end
  end.

(* first element with the largest eft (Python max with key) *)
Definition max_eft (s : pstate) (l : list nat) : Q :=
  match l with
  | [] => 0%Q
  | x :: r => fold_left (fun m t => if Qltb m (eft (td s t)) then eft (td s t) else m) r (eft (td s x))
  end.

(* __set_lst_lft_criticalpath_data(time), with the reset of the F4 repair and
   the empty-workflow guard *)
Definition pert_backward (s : pstate) : pstate :=
  let s0 := with_td s (tab (nT c) (fun t => set_lst_lft (td s t) (-1)%Q (-1)%Q) (td s)) in
  let tails := filter (fun t => match t_outputs c t with [] => true | _ => false end) tasks in
  match tails with
  | [] => with_cpl s0 0%Q
  | _ =>
      let cp := max_eft s0 tails in
      let s1 := with_cpl s0 cp in
      let s2 := fold_left (fun s' t => with_td s' (upd (td s') t (set_lst_lft (td s' t) (cp - rem (td s' t))%Q cp)))
                          tails s1 in
      bwd_loop (S (nT c)) s2 tails
  end.

Definition update_pert (tm : nat) (s : pstate) : pstate :=
  pert_backward (pert_forward (inject_nat tm) s).

(* -------------------------------------------------------------------- update *)
(* BaseProject.__update *)
Definition update (o : opts) (s : pstate) : pstate :=
  let s1 := check_finished s in
  let s2 := product_check_state s1 in
  let s3 := check_removing (o_crank o) s2 in
  let s4 := check_ready s3 in
  let s5 := product_check_state s4 in
  update_pert (time s5) s5.

(* ------------------------------------------------------------ absence refresh *)
Definition refresh_one (k : nat) (abs : list nat) (x : rlive) : rlive :=
  if mem k abs then mkRL RAbsence (asg x)
  else match asg x with [] => mkRL RFree (asg x) | _ => mkRL RWorking (asg x) end.

Definition absence_update (working : bool) (s : pstate) : pstate :=
  let k := time s in
  if working then
    with_fd (with_wd s (tab (nW c) (fun w => refresh_one k (w_abs c w) (wd s w)) (wd s)))
            (tab (nF c) (fun f => refresh_one k (f_abs c f) (fd s f)) (fd s))
  else
    with_fd (with_wd s (tab (nW c) (fun w => mkRL RAbsence (asg (wd s w))) (wd s)))
            (tab (nF c) (fun f => mkRL RAbsence (asg (fd s f))) (fd s)).

(* ------------------------------------------------------------------- sorting *)
Section Sort.
  Variable A : Type.
  Variable le : A -> A -> bool.
  (* stable insertion sort: an element is inserted after the elements that are <= it *)
  Fixpoint insert_sorted (x : A) (l : list A) : list A :=
    match l with
    | [] => [x]
    | y :: r => if le y x then y :: insert_sorted x r else x :: y :: r
    end.
  Definition stable_sort (l : list A) : list A := fold_left (fun acc x => insert_sorted x acc) l [].
End Sort.

(* lexicographic <= on triples of rationals *)
Definition le3 (a b : Q * Q * Q) : bool :=
  let '(a1, a2, a3) := a in let '(b1, b2, b3) := b in
  if Qltb a1 b1 then true else if Qltb b1 a1 then false else
  if Qltb a2 b2 then true else if Qltb b2 a2 then false else Qleb a3 b3.

Definition sort_by3 (key : nat -> Q * Q * Q) (l : list nat) : list nat :=
  stable_sort nat (fun x y => le3 (key x) (key y)) l.
Definition sort_by (key : nat -> Q) (l : list nat) : list nat :=
  stable_sort nat (fun x y => Qleb (key x) (key y)) l.

Definition b2q (b : bool) : Q := if b then 1%Q else 0%Q.

Definition count_ready (l : list tstate) : nat := length (filter is_ready l).

(* sort_task_list *)
Definition task_key (rule : Z) (s : pstate) (t : nat) : Q :=
  let x := td s t in
  match rule with
  | 0%Z => (lst x - est x)%Q                            (* TSLACK *)
  | 1%Z => est x                                        (* EST *)
  | 2%Z => t_work c t                                   (* SPT *)
  | 3%Z => (- t_work c t)%Q                             (* LPT, reverse=True *)
  | 4%Z => (- inject_nat (count_ready (l_st (tl s t))))%Q   (* FIFO *)
  | 5%Z => (- rem x)%Q                                  (* LRPT *)
  | 6%Z => rem x                                        (* SRPT *)
  | 7%Z => (- cpl s)%Q                                  (* LWRPT *)
  | 8%Z => cpl s                                        (* SWRPT *)
  | _ => 0%Q
  end.
Definition sort_tasks (rule : Z) (s : pstate) (l : list nat) : list nat := sort_by (task_key rule s) l.

Definition skill_sum (l : list (nat * Q)) : Q := qsum (map snd l).

(* sort_worker_list(worker_list, rule, name=task.name[, workplace_id]) *)
Definition mw1 (w : nat) (target : option nat) : Q :=
  b2q (negb (match w_mainwp c w, target with
             | Some a, Some b => Nat.eqb a b
             | None, None => true
             | _, _ => false end)).
Definition mw2 (w : nat) : Q := b2q (match w_mainwp c w with Some _ => true | None => false end).

Definition worker_key (rule : Z) (t : nat) (target : option nat) (w : nat) : Q * Q * Q :=
  match rule with
  | (-1)%Z => (mw1 w target, mw2 w, skill_sum (w_skills c w))
  | 0%Z => (skill_sum (w_skills c w), mw1 w target, mw2 w)
  | 1%Z => (w_cost c w, mw1 w target, mw2 w)
  | _ => (* HSV: -skill, a missing entry sorts last *)
      match w_skill w t with
      | Some v => ((- v)%Q, mw1 w target, mw2 w)
      | None => (1000000000%Q, mw1 w target, mw2 w)
      end
  end.
Definition sort_workers (rule : Z) (t : nat) (target : option nat) (l : list nat) : list nat :=
  match rule with
  | (-1)%Z | 0%Z | 1%Z | 2%Z => sort_by3 (worker_key rule t target) l
  | _ => l
  end.

(* sort_facility_list(facility_list, rule, name=task.name) *)
Definition sort_facs (rule : Z) (t : nat) (l : list nat) : list nat :=
  match rule with
  | 0%Z => sort_by (fun f => skill_sum (f_skills c f)) l
  | 1%Z => sort_by (f_cost c) l
  | 2%Z => sort_by3 (fun f => match f_skill f t with
                              | Some v => (0%Q, (- v)%Q, 0%Q)
                              | None => (1%Q, 0%Q, 0%Q) end) l
  | _ => l
  end.

(* BaseWorkplace.get_available_space_size *)
Definition avail_space (s : pstate) (p : nat) : Q :=
  (wp_cap c p - qsum (map (c_size c) (wpc s p)))%Q.
(* get_total_workamount_skill(task.name) *)
Definition wp_total_skill (p t : nat) : Q :=
  qsum (map (fun f => skill_val (f_skill f t)) (filter (fun f => has_fskill f t) (wp_facs c p))).

(* sort_workplace_list(list, rule, name=task.name) *)
Definition sort_wps (rule : Z) (s : pstate) (t : nat) (l : list nat) : list nat :=
  match rule with
  | 0%Z => sort_by (fun p => (- avail_space s p)%Q) l
  | 1%Z => sort_by (fun p => (- wp_total_skill p t)%Q) l
  | _ => l
  end.

(* ------------------------------------------------------------ can_add_resources *)
Definition can_add (s : pstate) (t : nat) (w : nat) (fo : option nat) : bool :=
  let x := td s t in
  if is_none (st x) || is_fin (st x) then false else
  if existsb (w_solo c) (aw x) || existsb (f_solo c) (af x) then false else
  if w_solo c w && negb (match aw x with [] => true | _ => false end) then false else
  if (match fo with Some f => f_solo c f && negb (match af x with [] => true | _ => false end) | None => false end) then false else
  if (match t_fixw c t with Some l => negb (mem w l) | None => false end) then false else
  if (match fo, t_fixf c t with Some f, Some l => negb (mem f l) | _, _ => false end) then false else
  match fo with
  | Some f =>
      if negb (match asg (fd s f) with [] => true | _ => false end) then false
      else has_fskill f t && w_operates w f && has_wskill w t
  | None => has_wskill w t
  end.

(* ------------------------------------------------------------------- allocate *)
(* BaseComponent.is_ready *)
Definition comp_is_ready (s : pstate) (k : nat) : bool :=
  let sts := ctask_states s k in
  if forallb is_fin sts then false
  else negb (forallb is_none sts) && negb (existsb is_working sts) && existsb is_ready sts.

(* __can_move_component *)
Definition comp_idle (s : pstate) (k : nat) : bool :=
  forallb (fun t => let x := td s t in
                    negb (is_working (st x))
                    && (match aw x with [] => true | _ => false end)
                    && (match af x with [] => true | _ => false end)) (c_tasks c k).
Definition can_move (s : pstate) (moved : list nat) (k : nat) : bool :=
  tree_all (nC c) (fun k' => negb (mem k' moved) && comp_idle s k') k.

(* __conveyor_condition *)
Definition conveyor_ok (s : pstate) (p : nat) (k : nat) : bool :=
  tree_all (nC c) (fun k' => match wp_inputs c p with
                             | [] => true
                             | ins => match pw (cd s k') with
                                      | None => true
                                      | Some q => mem q ins
                                      end
                             end) k.

(* BaseWorkplace.can_put *)
Definition can_put (s : pstate) (p k : nat) : bool :=
  Qltb (c_size c k - tol_space)%Q (avail_space s p).

(* component.set_placed_workplace(wp) ; workplace.set_placed_component(component) *)
Fixpoint set_placed_comp (fuel : nat) (p : nat) (l : list nat) (k : nat) : list nat :=
  if mem k l then l else
  match fuel with
  | 0 => l ++ [k]
  | S f => fold_left (set_placed_comp f p) (c_children c k) (l ++ [k])
  end.
Definition attach_tree (s : pstate) (p k : nat) : pstate :=
  let s1 := with_cd s (fold_left (fun d k' => upd d k' (mkCL (cst (d k')) (Some p))) (tree k) (cd s)) in
  with_wpc s1 (upd (wpc s1) p (set_placed_comp (nC c) p (wpc s1 p) k)).

(* the placement block 3-1 for one task *)
Fixpoint try_place (s : pstate) (moved : list nat) (t k : nat) (cands : list nat) : pstate * list nat :=
  match cands with
  | [] => (s, moved)
  | p :: r =>
      if (p <? nWP c) && conveyor_ok s p k && can_put s p k && Qltb tol (wp_total_skill p t)
      then (attach_tree (detach_tree s k) p k, moved ++ tree k)
      else try_place s moved t k r
  end.

Definition place_for (s : pstate) (moved : list nat) (t : nat) : pstate * list nat :=
  match t_comp c t with
  | None => (s, moved)
  | Some k =>
      if comp_is_ready s k && can_move s moved k
      then try_place s moved t k (sort_wps (t_prule c t) s t (t_wps c t))
      else (s, moved)
  end.

Definition do_alloc_w (s : pstate) (t w : nat) : pstate :=
  let s1 := with_td s (upd (td s) t (set_aw (td s t) (aw (td s t) ++ [w]))) in
  with_wd s1 (upd (wd s1) w (mkRL (rst (wd s1 w)) (asg (wd s1 w) ++ [t]))).
Definition do_alloc_f (s : pstate) (t f : nat) : pstate :=
  let s1 := with_td s (upd (td s) t (set_af (td s t) (af (td s t) ++ [f]))) in
  with_fd s1 (upd (fd s1) f (mkRL (rst (fd s1 f)) (asg (fd s1 f) ++ [t]))).

(* 3-2, task without facility *)
Definition alloc_workers (s : pstate) (free : list nat) (t : nat) : pstate * list nat :=
  let free1 := sort_workers (t_wrule c t) t None free in
  let cands := filter (fun w => has_wskill w t && w_targets w t) free1 in
  fold_left (fun (acc : pstate * list nat) w =>
               let (s', fr) := acc in
               if can_add s' t w None
               then (do_alloc_w s' t w, filter (fun w' => negb (Nat.eqb w' w)) fr)
               else acc)
            cands (s, free1).

(* 3-2, task that needs a facility *)
Definition alloc_with_facility (s : pstate) (free : list nat) (t : nat) : pstate * list nat :=
  match t_comp c t with
  | None => (s, free)
  | Some k =>
      match pw (cd s k) with
      | None => (s, free)
      | Some p =>
          let free_f := filter (fun f => rstate_eqb (rst (fd s f)) RFree) (wp_facs c p) in
          let free_f := sort_facs (t_frule c t) t free_f in
          let alloc_f := filter (fun f => has_fskill f t && f_targets f t) free_f in
          fold_left (fun (acc : pstate * list nat) f =>
                       let (s', fr) := acc in
                       let cands := filter (fun w => has_wskill w t && w_targets w t && can_add s' t w (Some f)) fr in
                       let cands := sort_workers (t_wrule c t) t (Some p) cands in
                       match cands with
                       | [] => acc
                       | w :: _ => (do_alloc_f (do_alloc_w s' t w) t f,
                                    filter (fun w' => negb (Nat.eqb w' w)) fr)
                       end)
                    alloc_f (s, free)
      end
  end.

Definition alloc_task (acc : pstate * list nat * list nat) (t : nat) : pstate * list nat * list nat :=
  let '(s, free, moved) := acc in
  let (s1, moved1) := place_for s moved t in
  if t_auto c t then (s1, free, moved1)
  else
    let (s2, free2) := if t_needfac c t then alloc_with_facility s1 free t else alloc_workers s1 free t in
    (s2, free2, moved1).

(* BaseProject.__allocate *)
Definition allocate (o : opts) (s : pstate) : pstate :=
  let cand := filter (fun t => is_ready (st (td s t)) || is_working (st (td s t))) tasks in
  let free := filter (fun w => rstate_eqb (rst (wd s w)) RFree) all_workers in
  let sorted := sort_tasks (o_rule o) s cand in
  fst (fst (fold_left alloc_task sorted (s, free, []))).

(* -------------------------------------------------------------- check_working *)
Definition cw_target (s : pstate) (t : nat) : bool :=
  let x := td s t in
  (is_ready (st x) && negb (match aw x with [] => true | _ => false end))
  || (is_ready (st x) && t_auto c t && (match t_comp c t with None => true | Some _ => false end))
  || (is_ready (st x) && t_auto c t &&
      (match t_comp c t with
       | Some k => match pw (cd s k) with Some p => mem p (t_wps c t) | None => false end
       | None => false end))
  || (is_working (st x) && negb (match aw x with [] => true | _ => false end)).

Definition set_rst (d : nat -> rlive) (r : nat) (v : rstate) : nat -> rlive := upd d r (mkRL v (asg (d r))).
Definition free_to_working (d : nat -> rlive) (r : nat) : nat -> rlive :=
  if rstate_eqb (rst (d r)) RFree then set_rst d r RWorking else d.

Definition cw_one (s : pstate) (t : nat) : pstate :=
  let x := td s t in
  if is_ready (st x) then
    let s1 := with_td s (upd (td s) t (set_st x TWorking)) in
    let s2 := with_wd s1 (fold_left (fun d w => set_rst d w RWorking) (aw x) (wd s1)) in
    if t_needfac c t then with_fd s2 (fold_left (fun d f => set_rst d f RWorking) (af x) (fd s2)) else s2
  else if is_working (st x) then
    let s2 := with_wd s (fold_left free_to_working (aw x) (wd s)) in
    if t_needfac c t && negb (match aw x with [] => true | _ => false end)
    then with_fd s2 (fold_left free_to_working (af x) (fd s2)) else s2
  else s.

Definition check_working (s : pstate) : pstate :=
  fold_left cw_one (filter (cw_target s) tasks) s.

(* ----------------------------------------------------------------------- cost *)
Definition rcost (working : bool) (cost : Q) (x : rlive) : Q :=
  if working && rstate_eqb (rst x) RWorking then cost else 0%Q.

Definition add_cost (working : bool) (s : pstate) : pstate :=
  let wc := fun w => rcost working (w_cost c w) (wd s w) in
  let fc := fun f => rcost working (f_cost c f) (fd s f) in
  let teamc := fun g => qsum (map wc (team_workers c g)) in
  let wpcost := fun p => qsum (map fc (wp_facs c p)) in
  let total := fold_left Qplus (map wpcost (seq 0 (nWP c)))
                 (fold_left Qplus (map teamc (seq 0 (nTeam c))) 0%Q) in
  mkP (time s) (status s) (cpl s) (td s) (wd s) (fd s) (cd s) (wpc s) (tl s)
      (tab (nW c) (fun w => let x := wl s w in mkRLog (rl_st x) (rl_cost x ++ [wc w]) (rl_asg x)) (wl s))
      (tab (nF c) (fun f => let x := fl s f in mkRLog (rl_st x) (rl_cost x ++ [fc f]) (rl_asg x)) (fl s))
      (cl s)
      (tab (nWP c) (fun p => let x := wpl s p in mkWPLog (wl_cost x ++ [wpcost p]) (wl_pc x)) (wpl s))
      (tab (nTeam c) (fun g => teaml s g ++ [teamc g]) (teaml s))
      (orgl s ++ [total]) (costl s ++ [total]).

(* -------------------------------------------------------------------- perform *)
Definition count_working (s : pstate) (l : list nat) : nat :=
  length (filter (fun t => match st (td s t) with TWorking | TWorkingAdd => true | _ => false end) l).

(* get_work_amount_skill_progress *)
Definition w_progress (s : pstate) (w t : nat) : Q :=
  if negb (has_wskill w t) then 0%Q
  else if rstate_eqb (rst (wd s w)) RAbsence then 0%Q
  else (skill_val (w_skill w t) / inject_nat (count_working s (asg (wd s w))))%Q.
Definition f_progress (s : pstate) (f t : nat) : Q :=
  if negb (has_fskill f t) then 0%Q
  else if rstate_eqb (rst (fd s f)) RAbsence then 0%Q
  else (skill_val (f_skill f t) / inject_nat (count_working s (asg (fd s f))))%Q.

Definition progress (s : pstate) (t : nat) : Q :=
  let x := td s t in
  if t_auto c t then t_rate c t
  else if t_needfac c t then
    fold_left (fun a wf => (a + w_progress s (fst wf) t * f_progress s (snd wf) t)%Q) (combine (aw x) (af x)) 0%Q
  else fold_left (fun a w => (a + w_progress s w t)%Q) (aw x) 0%Q.

Definition perform (only_auto : bool) (s : pstate) : pstate :=
  with_td s (tab (nT c) (fun t => let x := td s t in
              if is_working (st x) && (negb only_auto || t_auto c t)
              then set_rem x (rem x - progress s t)%Q else x) (td s)).

(* --------------------------------------------------------------------- record *)
Definition disp_t (working : bool) (x : tstate) : tstate :=
  if working then x else match x with TWorking => TReady | _ => x end.
Definition disp_c (working : bool) (x : cstate) : cstate :=
  if working then x else match x with CWorking => CReady | _ => x end.
Definition disp_r (working : bool) (x : rstate) : rstate := if working then x else RAbsence.

Definition record (working : bool) (s : pstate) : pstate :=
  mkP (time s) (status s) (cpl s) (td s) (wd s) (fd s) (cd s) (wpc s)
      (tab (nT c) (fun t =>
                  let x := td s t in let g := tl s t in
                  mkTLog (l_st g ++ [disp_t working (st x)]) (l_rem g ++ [rem x]) (l_aw g ++ [aw x]) (l_af g ++ [af x]))
           (tl s))
      (tab (nW c) (fun w =>
                  let x := wd s w in let g := wl s w in
                  mkRLog (rl_st g ++ [disp_r working (rst x)]) (rl_cost g) (rl_asg g ++ [asg x]))
           (wl s))
      (tab (nF c) (fun f =>
                  let x := fd s f in let g := fl s f in
                  mkRLog (rl_st g ++ [disp_r working (rst x)]) (rl_cost g) (rl_asg g ++ [asg x]))
           (fl s))
      (tab (nC c) (fun k =>
                  let x := cd s k in let g := cl s k in
                  mkCLog (cl_st g ++ [disp_c working (cst x)]) (cl_pw g ++ [pw x]))
           (cl s))
      (tab (nWP c) (fun p => let g := wpl s p in mkWPLog (wl_cost g) (wl_pc g ++ [wpc s p])) (wpl s))
      (teaml s) (orgl s) (costl s).

(* ----------------------------------------------------------------- initialize *)
Definition init_tlive (t : nat) : tlive :=
  mkTL TNone (t_work c t * (1 - t_progress c t))%Q [] [] 0%Q 0%Q (-1)%Q (-1)%Q.

Definition exempt (t : nat) : bool := Qleb (1 - tol)%Q (t_progress c t).

(* BaseProject.initialize(state_info, log_info); the order is organization,
   workflow, product *)
Definition initialize (o : opts) (s : pstate) : pstate :=
  let si := o_init_state o in let li := o_init_log o in
  let s1 :=
    mkP (if li then 0 else time s) (if li then StNone else status s) (if si then 0%Q else cpl s)
        (if si then tab (nT c) (fun t =>
                    let x := init_tlive t in
                    if li && exempt t then set_st x TFinished else x) init_tlive
         else td s)
        (if si then tab (nW c) (fun _ => mkRL RFree []) (fun _ => mkRL RFree []) else wd s)
        (if si then tab (nF c) (fun _ => mkRL RFree []) (fun _ => mkRL RFree []) else fd s)
        (if si then tab (nC c) (fun _ => mkCL CNone None) (fun _ => mkCL CNone None) else cd s)
        (if si then tab (nWP c) (fun _ => []) (fun _ => []) else wpc s)
        (if li then tab (nT c) (fun _ => mkTLog [] [] [] []) (fun _ => mkTLog [] [] [] []) else tl s)
        (if li then tab (nW c) (fun _ => mkRLog [] [] []) (fun _ => mkRLog [] [] []) else wl s)
        (if li then tab (nF c) (fun _ => mkRLog [] [] []) (fun _ => mkRLog [] [] []) else fl s)
        (if li then tab (nC c) (fun _ => mkCLog [] []) (fun _ => mkCLog [] []) else cl s)
        (if li then tab (nWP c) (fun _ => mkWPLog [] []) (fun _ => mkWPLog [] []) else wpl s)
        (if li then tab (nTeam c) (fun _ => []) (fun _ => []) else teaml s)
        (if li then [] else orgl s)
        (if li then [] else costl s) in
  (* workflow.initialize: critical_path_length = 0; update_PERT_data(0); check_state(-1, READY) *)
  let s2 := if si then check_ready (update_pert 0 (with_cpl s1 0%Q)) else s1 in
  (* product.initialize: each component: state NONE, placed None (done above), then check_state *)
  if si then
    with_cd s2 (tab (nC c) (fun k => mkCL (comp_check s2 k) None) (cd s2))
  else s2.

(* ----------------------------------------------------------------- the loop *)
Definition all_finished (s : pstate) : bool := forallb (fun t => is_fin (st (td s t))) tasks.

Inductive phase := PUpdated | PAllocated | PPerformed | PRecorded.

(* one iteration of the while loop after __update, split at the observer points *)
Definition step_allocate (o : opts) (s : pstate) : pstate :=
  let working := negb (mem (time s) (o_abs o)) in
  let s1 := absence_update working s in
  let s2 := if working then allocate o s1 else s1 in
  if working || o_auto_abs o then product_check_state (check_working s2) else s2.

Definition step_perform (o : opts) (s : pstate) : pstate :=
  let working := negb (mem (time s) (o_abs o)) in
  let s1 := add_cost working s in
  if working then perform false s1
  else if o_auto_abs o then perform true s1 else s1.

Definition step_record (o : opts) (s : pstate) : pstate :=
  let working := negb (mem (time s) (o_abs o)) in
  record working s.

Definition step_body (o : opts) (s : pstate) : pstate :=
  let s3 := step_record o (step_perform o (step_allocate o s)) in
  with_time s3 (S (time s)).

(* the trace of observer snapshots *)
Definition obs := (nat * phase * pstate)%type.

Fixpoint run (o : opts) (fuel : nat) (s : pstate) (acc : list obs) : pstate * list obs :=
  let s1 := update o s in
  let acc1 := acc ++ [(time s1, PUpdated, s1)] in
  if all_finished s1 then (with_status s1 StSuccess, acc1)
  else if o_max_time o <=? time s1 then (with_status s1 StFailure, acc1)
  else
    match fuel with
    | 0 => (s1, acc1)                (* not reached: fuel = max_time - time + 1 *)
    | S f =>
        let sa := step_allocate o s1 in
        let sp := step_perform o sa in
        let sr := step_record o sp in
        let k := time s1 in
        run o f (with_time sr (S k))        (* self.time = self.time + unit_time *)
            (acc1 ++ [(k, PAllocated, sa); (k, PPerformed, sp); (k, PRecorded, sr)])
    end.

Definition simulate (o : opts) (s : pstate) : pstate * list obs :=
  let s0 := initialize o s in
  run o (S (o_max_time o - time s0)) s0 [].

(* a never-simulated project object *)
Definition blank : pstate :=
  mkP 0 StNone 0%Q
      (fun t => mkTL TNone (t_work c t * (1 - t_progress c t))%Q [] [] 0%Q 0%Q (-1)%Q (-1)%Q)
      (fun _ => mkRL RFree []) (fun _ => mkRL RFree []) (fun _ => mkCL CNone None) (fun _ => [])
      (fun _ => mkTLog [] [] [] []) (fun _ => mkRLog [] [] []) (fun _ => mkRLog [] [] [])
      (fun _ => mkCLog [] []) (fun _ => mkWPLog [] []) (fun _ => []) [] [].

End WithCfg.

(* BaseProject.backward_simulate as a run: the inner forward run on the
   reversed configuration (with the helper tasks of Model/Backward.v as extra
   automatic tasks nT, nT+1, ...), followed by the log reversal.  The structure
   itself is restored afterwards (Proofs/C17Proof.v), so the configuration of
   the project is c again. *)
From Coq Require Import List ZArith QArith Bool Arith.
From PV Require Import Model.Types Model.Sim Model.LogEdit Model.RevLog Model.Backward.
Import ListNotations.
Open Scope nat_scope.

Section BackwardRun.
Variable c : cfg.

(* tasks without successors: the tail tasks of the reversed network *)
Definition btails : list nat := filter (fun t => match t_outputs c t with [] => true | _ => false end) (tasks c).
(* those with an earlier due time get a helper *)
Definition needy (consider_due : bool) : list nat :=
  if consider_due then
    match btails with
    | [] => []
    | t0 :: _ => let m := zmax_list (map (t_due c) btails) (t_due c t0) in filter (fun t => (t_due c t <? m)%Z) btails
    end
  else [].
Definition maxdue : Z := match btails with [] => 0%Z | t0 :: _ => zmax_list (map (t_due c) btails) (t_due c t0) end.

Fixpoint index_of (x : nat) (l : list nat) (i : nat) : option nat :=
  match l with [] => None | y :: r => if Nat.eqb x y then Some i else index_of x r (S i) end.

Definition back_cfg (consider_due : bool) : cfg :=
  let nd := needy consider_due in
  let n := nT c in
  let helper t := t - n in                       (* t >= n: the (t - n)-th helper *)
  let is_h t := (n <=? t) && (t - n <? length nd) in
  mkCfg (n + length nd) (nW c) (nF c) (nC c) (nTeam c) (nWP c)
    (fun t => if t <? n then t_name c t else 0)
    (fun t => if t <? n then t_work c t else inject_Z (maxdue - t_due c (nth (helper t) nd 0)))
    (fun t => if t <? n then t_progress c t else 0%Q)
    (fun t => if t <? n then t_rate c t else 1%Q)
    (fun t => if t <? n then t_auto c t else true)
    (fun t => if t <? n then t_needfac c t else false)
    (fun t => if t <? n then t_comp c t else None)
    (* inputs: the old outputs, then the helper *)
    (fun t => if t <? n then t_outputs c t ++ match index_of t nd 0 with Some k => [(n + k, FS)] | None => [] end else [])
    (fun t => if t <? n then t_inputs c t else if is_h t then [(nth (helper t) nd 0, FS)] else [])
    (fun t => if t <? n then t_teams c t else [])
    (fun t => if t <? n then t_wps c t else [])
    (fun t => if t <? n then t_fixw c t else None)
    (fun t => if t <? n then t_fixf c t else None)
    (fun t => if t <? n then t_wrule c t else (-1)%Z)
    (fun t => if t <? n then t_frule c t else 0%Z)
    (fun t => if t <? n then t_prule c t else 0%Z)
    (fun t => if t <? n then t_due c t else (-1)%Z)
    (w_team c) (w_skills c) (w_fskills c) (w_cost c) (w_solo c) (w_abs c) (w_mainwp c) (team_workers c)
    (f_wp c) (f_name c) (f_skills c) (f_cost c) (f_solo c) (f_abs c) (wp_facs c) (wp_cap c)
    (* organization.reverse_dependencies: the output workplaces become the inputs *)
    (fun p => filter (fun q => mem p (wp_inputs c q)) (seq 0 (nWP c)))
    (c_size c) (c_children c) (c_parents c) (c_tasks c).

(* the helper tasks are new objects: state NONE, full work, empty logs *)
Definition with_helpers (c' : cfg) (s : pstate) : pstate :=
  let n := nT c in
  mkP (time s) (status s) (cpl s)
      (fun t => if t <? n then td s t else init_tlive c' t)
      (wd s) (fd s) (cd s) (wpc s)
      (fun t => if t <? n then tl s t else mkTLog [] [] [] [])
      (wl s) (fl s) (cl s) (wpl s) (teaml s) (orgl s) (costl s).

Definition backward_simulate (consider_due reverse_logs : bool) (o : opts) (e : estate) : estate :=
  let c' := back_cfg consider_due in
  let s1 := with_helpers c' (snd e) in
  let s2 := fst (simulate c' o s1) in
  if reverse_logs then reverse_log c (o_abs o, s2) else (o_abs o, s2).

End BackwardRun.

(* Correspondence checkers for C19 (see harness/props/c19.py). *)
From Coq Require Import List ZArith QArith Bool.
From PV Require Import Model.Gantt Model.Corr.
Import ListNotations.

Definition tstate_of (z : Z) : tstate :=
  match z with 0 => TNone | 1 => TReady | 2 => TWorking | 3 => TWorkingAdd | _ => TFinished end%Z.
Definition cstate_of (z : Z) : cstate :=
  match z with 0 => CNone | 1 => CReady | 2 => CWorking | (-1) => CFinished | _ => CRemoved end%Z.
Definition rstate_of (z : Z) : rstate :=
  match z with 0 => RFree | 1 => RWorking | _ => RAbsence end%Z.

Definition runs_eqb := list_eqb zq_eqb.

(* (states, margin, ready, working) *)
Definition chk_task (c : list Z * Q * list (Z * Q) * list (Z * Q)) : bool :=
  let '(l, m, r, w) := c in
  let '(r', w') := gantt_task (map tstate_of l) m in
  runs_eqb r r' && runs_eqb w w'.
Definition chk_component (c : list Z * Q * list (Z * Q) * list (Z * Q)) : bool :=
  let '(l, m, r, w) := c in
  let '(r', w') := gantt_component (map cstate_of l) m in
  runs_eqb r r' && runs_eqb w w'.
Definition chk_resource (c : list Z * Q * list (Z * Q) * list (Z * Q) * list (Z * Q)) : bool :=
  let '(l, m, r, w, a) := c in
  let '(r', w', a') := gantt_resource (map rstate_of l) m in
  runs_eqb r r' && runs_eqb w w' && runs_eqb a a'.

(* chart rows of a task / component with view_ready=True:
   (kind 0 task / 1 component, states, margin, init, unit, rows) *)
Definition chk_rows2 (c : Z * list Z * Q * Z * Z * list (Z * Z)) : bool :=
  let '(k, l, m, init, u, rs) := c in
  let '(r', w') := if (k =? 0)%Z then gantt_task (map tstate_of l) m
                   else gantt_component (map cstate_of l) m in
  list_eqb zz_eqb rs (rows init u r' ++ rows init u w').

(* team / workplace rows, view_ready = view_absence = True, one member list
   per worker / facility: ready, absence, working *)
Definition member_rows (init u : Z) (m : Q) (l : list Z) : list (Z * Z) :=
  let '(r', w', a') := gantt_resource (map rstate_of l) m in
  rows init u r' ++ rows init u a' ++ rows init u w'.
Definition chk_rows3 (c : list (list Z) * Q * Z * Z * list (Z * Z)) : bool :=
  let '(ls, m, init, u, rs) := c in
  list_eqb zz_eqb rs (flat_map (member_rows init u m) ls).

(* extract: (kind 0 task/1 component/2 resource, logs, target, times, result sorted) *)
Definition chk_extract (c : Z * list (list Z) * Z * list nat * list nat) : bool :=
  let '(k, logs, target, times, res) := c in
  let r :=
    if (k =? 0)%Z then extract tstate tstate_eqb (map (map tstate_of) logs) (tstate_of target) times
    else if (k =? 1)%Z then extract cstate cstate_eqb (map (map cstate_of) logs) (cstate_of target) times
    else extract rstate rstate_eqb (map (map rstate_of) logs) (rstate_of target) times in
  list_eqb Nat.eqb r res.

(* set_last_datetime: (last, unit, time, init) *)
Definition chk_last (c : Z * Z * Z * Z) : bool :=
  let '(last, u, t, init) := c in Z.eqb (set_last_datetime last u t) init.

(* Model of BaseSubProjectTask configuration (set_all_attributes_from_json,
   set_work_amount_progress_of_unit_step_time) and of the number of steps an
   automatic task of given work amount and unit rate stays WORKING. *)
From Coq Require Import List ZArith QArith Qround Bool Arith.
From PV Require Import Model.Types.
Import ListNotations.

(* what set_all_attributes_from_json reads from the saved sub-project *)
Record subresult := mkSub {
  r_status : pstatus;
  r_time : nat;                 (* project.time of the saved run *)
  r_abs : list nat;             (* its absence_time_list *)
  r_unit : Q                    (* its unit_timedelta, seconds *)
}.

(* the attributes of the sub-project task that configuration touches *)
Record subtask := mkSubTask {
  s_work : Q;                   (* default_work_amount *)
  s_rate : Q;                   (* work_amount_progress_of_unit_step_time *)
  s_unit : Q;                   (* unit_timedelta, seconds *)
  s_read : bool;                (* read_json_file *)
  s_remove : bool               (* remove_absence_time_list (the flag) *)
}.

(* project.remove_absence_time_list(): time decreases by the number of distinct
   listed steps that lie inside the run *)
Definition simulated_absences (r : subresult) : nat :=
  length (nodup Nat.eq_dec (filter (fun a => Nat.ltb a (r_time r)) (r_abs r))).

(* returns the task and whether the warning was issued *)
Definition configure (remove : bool) (r : subresult) (t : subtask) : subtask * bool :=
  match r_status r with
  | StSuccess =>
      let d := (r_time r - (if remove then simulated_absences r else 0))%nat in
      (mkSubTask (inject_Z (Z.of_nat d)) (s_rate t) (r_unit r) true remove, false)
  | _ => (t, true)
  end.

Definition set_rate (parent_unit : Q) (t : subtask) : subtask :=
  mkSubTask (s_work t) (parent_unit / s_unit t) (s_unit t) (s_read t) (s_remove t).

(* an automatic WORKING task: one working step takes [r] off, the task is
   finished at the first update that sees remaining work below the tolerance *)
Fixpoint steps_working (fuel : nat) (rem r : Q) : option nat :=
  if Qltb rem tol then Some 0%nat
  else match fuel with
       | 0%nat => None
       | S f => match steps_working f (rem - r) r with Some n => Some (S n) | None => None end
       end.

(* correspondence checker (harness/props/c20.py):
   (status, time, absence list, remove flag, sub unit, parent unit, work after, rate after, warned) *)
From PV Require Import Model.Corr.
Definition chk_config (x : Z * nat * list nat * bool * Q * Q * Q * Q * bool) : bool :=
  let '(stz, tm, ab, rm, su, pu, work, rate, warned) := x in
  let st := match stz with 1%Z => StSuccess | 0%Z => StNone | _ => StFailure end in
  let t0 := mkSubTask 10 1 60 false false in
  let (t1, w) := configure rm (mkSub st tm ab su) t0 in
  let t2 := if w then t1 else set_rate pu t1 in
  Qeq_bool (s_work t2) work && Qeq_bool (s_rate t2) rate && Bool.eqb w warned.

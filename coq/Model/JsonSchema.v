(* The save format as data: for every class the keys written by
   export_dict_json_data (with the shape of the expression producing the
   value), the keys read back into constructor parameters (with the shape of the
   conversion), the attribute each constructor parameter is stored in, and the
   ID -> object relinking done by read_simple_json.  Gen/Schema.v instantiates
   these records from the source on every run (harness/schema.py). *)
From Coq Require Import List String Bool.
Import ListNotations.
Open Scope string_scope.

Inductive okind :=            (* value written for attribute a *)
| OPlain                      (* self.a *)
| OOptPlain                   (* self.a if self.a is not None else None *)
| OInt                        (* int(self.a) *)
| OListInt                    (* [int(x) for x in self.a] *)
| OListFloat                  (* [float(x) for x in self.a] *)
| OListId                     (* [x.ID for x in self.a] *)
| OListIdDep                  (* [(t.ID, int(d)) for t, d in self.a] *)
| OOptId                      (* self.a.ID if self.a is not None else None *)
| OSecondsStr                 (* str(self.a.total_seconds()) *)
| ODateStr                    (* self.a.strftime(fmt) *)
| ONested                     (* [x.export_dict_json_data() for x in self.a] *)
| OUnknown.                   (* anything else: never accepted *)

Inductive ikind :=            (* constructor argument built from key k *)
| IPlain                      (* j["k"] *)
| IPlainDefault               (* j.get("k"[, d]) *)
| IEnum                       (* E(j["k"]) *)
| IEnumDefault                (* E(j.get("k", d)) *)
| IListEnum                   (* [E(n) for n in j["k"]] *)
| ISeconds                    (* datetime.timedelta(seconds=float(j["k"])) *)
| IDate                       (* datetime.datetime.strptime(j["k"], fmt) *)
| INested                     (* objects built from the dictionaries in j["k"] *)
| IUnknown.

Inductive lkind :=            (* second pass of read_simple_json on attribute a *)
| LNone
| LListId                     (* [get_x_list(ID=ID)[0] for ID in o.a] *)
| LListIdDep                  (* [[get_task_list(ID=ID)[0], Dep(n)] for (ID, n) in o.a] *)
| LOptId                      (* get_x_list(ID=o.a)[0] if o.a is not None else None *)
| LUnknown.

Record cls := mkCls {
  c_name : string;
  c_exports : list (string * string * okind);     (* key, attribute, shape *)
  c_imports : list (string * string * ikind);     (* constructor parameter, key, shape *)
  c_params : list string;                         (* constructor parameters *)
  c_assign : list (string * string);              (* parameter, attribute it is stored in *)
  c_relink : list (string * lkind)                (* attribute, relinking shape *)
}.

(* which reader undoes which writer *)
Definition compatible (ko : okind) (ki : ikind) (l : lkind) : bool :=
  match ko, ki, l with
  | (OPlain | OOptPlain), (IPlain | IPlainDefault), LNone => true
  | OInt, (IEnum | IEnumDefault), LNone => true
  | OListInt, IListEnum, LNone => true
  | OListFloat, IPlain, LNone => true
  | OListId, (IPlain | IPlainDefault), LListId => true
  | OListIdDep, IPlain, LListIdDep => true
  | OOptId, IPlain, LOptId => true
  | OSecondsStr, ISeconds, LNone => true
  | ODateStr, IDate, LNone => true
  | ONested, INested, LNone => true
  | _, _, _ => false
  end.

Fixpoint assoc_s {B} (k : string) (l : list (string * B)) : option B :=
  match l with
  | [] => None
  | (k', v) :: r => if String.eqb k k' then Some v else assoc_s k r
  end.
Definition mem_s (k : string) (l : list string) : bool := existsb (String.eqb k) l.
Fixpoint nodup_s (l : list string) : bool :=
  match l with [] => true | x :: r => negb (mem_s x r) && nodup_s r end.

(* the parameter an attribute is stored from: the first assignment self.a = ... p ... *)
Fixpoint param_of (a : string) (asg : list (string * string)) : option string :=
  match asg with
  | [] => None
  | (p, a') :: r => if String.eqb a a' then Some p else param_of a r
  end.
Fixpoint import_of (p : string) (imps : list (string * string * ikind)) : option (string * ikind) :=
  match imps with
  | [] => None
  | (p', k, ki) :: r => if String.eqb p p' then Some (k, ki) else import_of p r
  end.
Definition relink_of (c : cls) (a : string) : lkind :=
  match assoc_s a (c_relink c) with Some l => l | None => LNone end.

Definition entry_ok (c : cls) (e : string * string * okind) : bool :=
  let '(k, a, ko) := e in
  match param_of a (c_assign c) with
  | Some p => match import_of p (c_imports c) with
              | Some (k', ki) => String.eqb k k' && compatible ko ki (relink_of c a)
              | None => false
              end
  | None => false
  end.
(* every assignment to an attribute uses the same parameter *)
Definition assign_ok (c : cls) : bool :=
  forallb (fun pa => match param_of (snd pa) (c_assign c) with Some p => String.eqb p (fst pa) | None => false end) (c_assign c).

Definition schema_ok (c : cls) : bool :=
  nodup_s (map (fun e => fst (fst e)) (c_exports c)) && forallb (entry_ok c) (c_exports c) && assign_ok c.

(* every constructor parameter outside [exempt] is read back from the file,
   and every key that is read is written *)
Definition ctor_saved (exempt : list string) (c : cls) : bool :=
  forallb (fun p => mem_s p exempt || match import_of p (c_imports c) with Some _ => true | None => false end) (c_params c).
Definition imports_exported (c : cls) : bool :=
  forallb (fun i => mem_s (snd (fst i)) (map (fun e => fst (fst e)) (c_exports c))) (c_imports c).

(* ------------------------------------------------------------ semantics *)
(* V: attribute values, J: JSON values.  [out] and [inn] stand for the
   conversions named by the shapes; their only assumed property is that a
   compatible reader followed by the same writer reproduces what was written. *)
Section Sem.
Variables V J : Type.
Variable out : okind -> V -> J.
Variable inn : ikind -> lkind -> option J -> V.
Hypothesis law : forall ko ki l v, compatible ko ki l = true -> out ko (inn ki l (Some (out ko v))) = out ko v.

Definition obj := string -> V.
Definition export (c : cls) (o : obj) : list (string * J) :=
  map (fun e => (fst (fst e), out (snd e) (o (snd (fst e))))) (c_exports c).
Definition import (c : cls) (d : list (string * J)) (dflt : obj) : obj :=
  fun a => match param_of a (c_assign c) with
           | Some p => match import_of p (c_imports c) with
                       | Some (k, ki) => inn ki (relink_of c a) (assoc_s k d)
                       | None => dflt a
                       end
           | None => dflt a
           end.
End Sem.

(* A small concrete project used for non-vacuity examples: four tasks in a
   diamond with one edge of each dependency kind, one team of two workers. *)
From Coq Require Import List ZArith QArith Bool Arith.
From PV Require Import Model.Types Model.Sim.
Import ListNotations.
Open Scope nat_scope.

Definition ex_inputs (t : nat) : list (nat * dep) :=
  match t with
  | 1 => [(0, FS)]
  | 2 => [(0, SS)]
  | 3 => [(1, FF); (2, SF)]
  | _ => []
  end.
Definition ex_outputs (t : nat) : list (nat * dep) :=
  match t with
  | 0 => [(1, FS); (2, SS)]
  | 1 => [(3, FF)]
  | 2 => [(3, SF)]
  | _ => []
  end.

Definition ex_cfg : cfg :=
  mkCfg 4 2 0 0 1 0
    (fun t => t) (fun t => match t with 0 => 2%Q | 1 => 1%Q | 2 => 3%Q | _ => 1%Q end)
    (fun _ => 0%Q) (fun _ => 1%Q) (fun _ => false) (fun _ => false) (fun _ => None)
    ex_inputs ex_outputs (fun _ => [0]) (fun _ => []) (fun _ => None) (fun _ => None)
    (fun _ => (-1)%Z) (fun _ => 0%Z) (fun _ => 0%Z) (fun _ => (-1)%Z)
    (fun _ => 0) (fun _ => [(0, 1%Q); (1, 1%Q); (2, 1%Q); (3, 1%Q)]) (fun _ => [])
    (fun w => match w with 0 => 3%Q | _ => 5%Q end) (fun _ => false)
    (fun w => match w with 1 => [2] | _ => [] end) (fun _ => None)
    (fun g => match g with 0 => [0; 1] | _ => [] end)
    (fun _ => 0) (fun _ => 0) (fun _ => []) (fun _ => 0%Q) (fun _ => false) (fun _ => [])
    (fun _ => []) (fun _ => 0%Q) (fun _ => [])
    (fun _ => 0%Q) (fun _ => []) (fun _ => []) (fun _ => []).

Definition ex_opts : opts := mkOpts 0%Z [1] false true true 50 [].

Definition ex_final : pstate := fst (simulate ex_cfg ex_opts (blank ex_cfg)).
Definition ex_trace : list obs := snd (simulate ex_cfg ex_opts (blank ex_cfg)).

(* the same diamond with finish-to-start edges only (C12) *)
Definition fs_inputs (t : nat) : list (nat * dep) :=
  match t with 1 => [(0, FS)] | 2 => [(0, FS)] | 3 => [(1, FS); (2, FS)] | _ => [] end.
Definition fs_outputs (t : nat) : list (nat * dep) :=
  match t with 0 => [(1, FS); (2, FS)] | 1 => [(3, FS)] | 2 => [(3, FS)] | _ => [] end.
Definition ex_fs_cfg : cfg :=
  mkCfg 4 2 0 0 1 0
    (fun t => t) (fun t => match t with 0 => 2%Q | 1 => 1%Q | 2 => 3%Q | _ => 1%Q end)
    (fun _ => 0%Q) (fun _ => 1%Q) (fun _ => false) (fun _ => false) (fun _ => None)
    fs_inputs fs_outputs (fun _ => [0]) (fun _ => []) (fun _ => None) (fun _ => None)
    (fun _ => (-1)%Z) (fun _ => 0%Z) (fun _ => 0%Z) (fun _ => (-1)%Z)
    (fun _ => 0) (fun _ => [(0, 1%Q); (1, 1%Q); (2, 1%Q); (3, 1%Q)]) (fun _ => [])
    (fun w => match w with 0 => 3%Q | _ => 5%Q end) (fun _ => false)
    (fun _ => []) (fun _ => None)
    (fun g => match g with 0 => [0; 1] | _ => [] end)
    (fun _ => 0) (fun _ => 0) (fun _ => []) (fun _ => 0%Q) (fun _ => false) (fun _ => [])
    (fun _ => []) (fun _ => 0%Q) (fun _ => [])
    (fun _ => 0%Q) (fun _ => []) (fun _ => []) (fun _ => []).
Definition ex_fs_opts : opts := mkOpts 0%Z [] false true true 50 [].
Definition ex_fs_init : pstate := initialize ex_fs_cfg ex_fs_opts (blank ex_fs_cfg).

(* two tasks on two components (component 1 is a child of 0), one workplace
   with one facility, one worker who can operate it (C13) *)
Definition ex_pl_cfg : cfg :=
  mkCfg 2 1 1 2 1 1
    (fun t => t) (fun t => match t with 0 => 2%Q | _ => 1%Q end)
    (fun _ => 0%Q) (fun _ => 1%Q) (fun _ => false) (fun t => match t with 0 => true | _ => false end)
    (fun t => match t with 0 => Some 0 | 1 => Some 1 | _ => None end)
    (fun _ => []) (fun _ => []) (fun _ => [0]) (fun _ => [0]) (fun _ => None) (fun _ => None)
    (fun _ => (-1)%Z) (fun _ => 0%Z) (fun _ => 0%Z) (fun _ => (-1)%Z)
    (fun _ => 0) (fun _ => [(0, 1%Q); (1, 1%Q)]) (fun _ => [(0, 1%Q)])
    (fun _ => 1%Q) (fun _ => false) (fun _ => []) (fun _ => None)
    (fun g => match g with 0 => [0] | _ => [] end)
    (fun _ => 0) (fun _ => 0) (fun _ => [(0, 1%Q)]) (fun _ => 1%Q) (fun _ => false) (fun _ => [])
    (fun p => match p with 0 => [0] | _ => [] end) (fun _ => 2%Q) (fun _ => [])
    (fun k => match k with 0 => 1%Q | _ => (1#2)%Q end)
    (fun k => match k with 0 => [1] | _ => [] end)
    (fun k => match k with 1 => [0] | _ => [] end)
    (fun k => match k with 0 => [0] | 1 => [1] | _ => [] end).
Definition ex_pl_opts : opts := mkOpts 0%Z [] false true true 50 [0; 1].
Definition ex_pl_final : pstate := fst (simulate ex_pl_cfg ex_pl_opts (blank ex_pl_cfg)).

(* two tasks joined by a finish-to-finish link, each with a worker of its own
   (worker w is skilled for task w only); task 1 has less work than task 0 and
   waits, holding its worker, until task 0 is done (C05) *)
Definition ex_ff_cfg : cfg :=
  mkCfg 2 2 0 0 1 0
    (fun t => t) (fun t => match t with 0 => 3%Q | _ => 1%Q end)
    (fun _ => 0%Q) (fun _ => 1%Q) (fun _ => false) (fun _ => false) (fun _ => None)
    (fun t => match t with 1 => [(0, FF)] | _ => [] end) (fun t => match t with 0 => [(1, FF)] | _ => [] end)
    (fun _ => [0]) (fun _ => []) (fun _ => None) (fun _ => None)
    (fun _ => (-1)%Z) (fun _ => 0%Z) (fun _ => 0%Z) (fun _ => (-1)%Z)
    (fun _ => 0) (fun w => [(w, 1%Q)]) (fun _ => [])
    (fun _ => 1%Q) (fun _ => false)
    (fun _ => []) (fun _ => None)
    (fun g => match g with 0 => [0; 1] | _ => [] end)
    (fun _ => 0) (fun _ => 0) (fun _ => []) (fun _ => 0%Q) (fun _ => false) (fun _ => [])
    (fun _ => []) (fun _ => 0%Q) (fun _ => [])
    (fun _ => 0%Q) (fun _ => []) (fun _ => []) (fun _ => []).
Definition ex_ff_opts : opts := mkOpts 0%Z [] false true true 50 [].

(* two tasks of 2 units, one worker each; the finish-to-start link 0 -> 1 is
   declared in task 1's input list only (BaseTask(input_task_list=...)), task
   0's output list is empty (C17, recorded finding; corpus/C17/onesided_link.json) *)
Definition ex_one_cfg : cfg :=
  mkCfg 2 2 0 0 1 0
    (fun t => t) (fun _ => 2%Q)
    (fun _ => 0%Q) (fun _ => 1%Q) (fun _ => false) (fun _ => false) (fun _ => None)
    (fun t => match t with 1 => [(0, FS)] | _ => [] end) (fun _ => [])
    (fun _ => [0]) (fun _ => []) (fun _ => None) (fun _ => None)
    (fun _ => (-1)%Z) (fun _ => 0%Z) (fun _ => 0%Z) (fun _ => (-1)%Z)
    (fun _ => 0) (fun w => [(w, 1%Q)]) (fun _ => [])
    (fun _ => 1%Q) (fun _ => false)
    (fun _ => []) (fun _ => None)
    (fun g => match g with 0 => [0; 1] | _ => [] end)
    (fun _ => 0) (fun _ => 0) (fun _ => []) (fun _ => 0%Q) (fun _ => false) (fun _ => [])
    (fun _ => []) (fun _ => 0%Q) (fun _ => [])
    (fun _ => 0%Q) (fun _ => []) (fun _ => []) (fun _ => []).

(* the small project on which deleting the absence steps does NOT give the
   absence-free run under the FIFO rule (C10, recorded finding; the same case
   is corpus/C10/fifo_small.json): task 1 (1/2 unit) precedes task 0 (3 units),
   task 2 (2 units) is independent; worker 0 is skilled for all of them, worker
   1 only (slowly) for task 2 *)
Definition ex_fifo_cfg : cfg :=
  mkCfg 3 2 0 0 1 0
    (fun t => match t with 2 => 0 | _ => 2 end)
    (fun t => match t with 0 => 3%Q | 1 => (1#2)%Q | _ => 2%Q end)
    (fun _ => 0%Q) (fun _ => 1%Q) (fun _ => false) (fun _ => false) (fun _ => None)
    (fun t => match t with 0 => [(1, FS)] | _ => [] end) (fun t => match t with 1 => [(0, FS)] | _ => [] end)
    (fun _ => [0]) (fun _ => []) (fun _ => None) (fun _ => None)
    (fun t => match t with 0 => 0%Z | 1 => 2%Z | _ => (-1)%Z end) (fun t => match t with 2 => 2%Z | _ => 0%Z end)
    (fun t => match t with 2 => 1%Z | _ => 0%Z end) (fun t => match t with 0 => 9%Z | 1 => 0%Z | _ => (-1)%Z end)
    (fun _ => 0) (fun w => match w with 0 => [(0, 1%Q); (2, (3#2)%Q)] | _ => [(0, (1#4)%Q)] end) (fun _ => [])
    (fun w => match w with 0 => (5#2)%Q | _ => 1%Q end) (fun _ => false)
    (fun _ => []) (fun _ => None)
    (fun g => match g with 0 => [0; 1] | _ => [] end)
    (fun _ => 0) (fun _ => 0) (fun _ => []) (fun _ => 0%Q) (fun _ => false) (fun _ => [])
    (fun _ => []) (fun _ => 0%Q) (fun _ => [])
    (fun _ => 0%Q) (fun _ => []) (fun _ => []) (fun _ => []).
Definition ex_fifo_opts : opts := mkOpts 4%Z [0; 1] false true true 60 [].

#!/bin/bash
# usage: seedcheck.sh <seed-dir> <property> [extra check args]   -- applies the seeded change to /repo, runs demo, tests, check; reverts
d=$1; p=$2; shift 2
cd /repo || exit 2
git diff --quiet || { echo "repo dirty"; exit 2; }
git apply $d/patch.diff || { echo "patch does not apply"; exit 2; }
PYTHONPATH=/repo /venv/bin/python -W ignore $d/demo.py >/dev/null 2>&1; echo "demo_with_change_exit=$?"
/venv/bin/python -m pytest -q -p no:cacheprovider --timeout=900 2>&1 | tail -1
cp /verif/evidence/$p.json /tmp/_ev_$p.json 2>/dev/null
cd /verif && ./check $p "$@" 2>&1 | grep -E "^(VIOLATION|OK|KNOWN)" | head -3
cp /tmp/_ev_$p.json /verif/evidence/$p.json 2>/dev/null   # keep the evidence of the last run on the unchanged tree
cd /repo && git checkout -- . 
PYTHONPATH=/repo /venv/bin/python -W ignore $d/demo.py >/dev/null 2>&1; echo "demo_without_change_exit=$?"

#!/bin/bash
# usage: goal.sh File.v LINE  -- show goal after LINE lines (run from /verif/coq)
f=$1; n=$2
head -n $n $f > /tmp/_dbg.v
echo 'Show. ' >> /tmp/_dbg.v
coqc -Q /verif/coq PV /tmp/_dbg.v 2>&1 | head -${3:-60}

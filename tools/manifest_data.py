NOTES = ("Every check regenerates nothing under /repo; it rebuilds the Coq development incrementally (full .vo), compiles Props/<id>.v "
         "(obligations + Print Assumptions), runs the implementation on generated cases with the observer hook, evaluates the property's "
         "oracle on every implementation trace and compares the traces with the extracted model on the property's cone. "
         "known_findings.json lists recorded (unrepaired) findings and the repaired ones.")
COMMON_NOTE = ("Trusted: Coq 8.16.1 kernel (vm_compute used in examples, no native_compute), no axioms (Print Assumptions: closed under the "
               "global context); the model is hand-written -- its agreement with the code is checked by differential testing on sampled "
               "cases only (dyadic numbers so that binary64 is exact; set-iteration order pinned); extraction uses ExtrOcamlBasic only; "
               "the OCaml driver and the Python harness are trusted for the correspondence, not for the theorems.")
CHECKS = {
 "C01": {"text": "Model/Sim.v mirrors simulate() phase by phase. Proved for every configuration (any graph), all options, all run lengths: the "
                 "dependency invariant (state<>NONE -> FS preds FINISHED & SS preds started; FINISHED -> FF preds FINISHED & SF preds started; "
                 "exempt tasks FINISHED) holds in every observer snapshot and in the returned state; task states only advance between "
                 "consecutive snapshots; the logged state is the displayed live state; the model's loop never runs out of fuel and every "
                 "trace has the updated/allocated/performed/recorded block shape.",
         "note": COMMON_NOTE, "technique": "Coq proof: inductive invariant over the phase functions + model/implementation correspondence (task states at all phases, state logs)"},
 "C19": {"text": "The four run-length encoders, the extract queries and the date arithmetic are modelled in Gallina (Model/Gantt.v) and proved equal to the "
                 "declarative maximal-run specification for every state sequence, margin, time list and date (Props/C19.v). The model is tied to the code by "
                 "evaluating it (vm_compute) on the same inputs as the real functions: random words over the full enums, all chart-row and query entry "
                 "points, exhaustive to length 7 in the thorough tier.",
         "note": COMMON_NOTE + " C19 uses generated cases files evaluated by coqc (no extraction).",
         "technique": "Coq proof (loop invariant: encoder = maximal runs) + model/implementation differential correspondence"},
}
CHECKS["C14"] = {"text": "Proved on the model for every product/workflow, every assignment of tasks to components (task-less components included), "
    "all options and run lengths: in every observer snapshot a component is FINISHED iff all its tasks are FINISHED, WORKING if some task is WORKING, not NONE "
    "if some task is READY/WORKING; between consecutive snapshots it never returns to NONE and never leaves FINISHED; the logged component state is the "
    "displayed live state. Method: inductive invariant (CompOK) + the weaker history invariant carried across task-state changes, using the lifecycle "
    "monotonicity proved for C01.",
    "note": COMMON_NOTE, "technique": "Coq proof: inductive invariant over the phase functions + model/implementation correspondence (component and task states at all phases, component logs)"}
CHECKS["C07"] = {"text": "Proved on the model, for every configuration, option set and run length: all per-step logs of the result of a run are maps of row "
    "functions over one history of recorded rows (LogsAre), from which: each worker/facility cost entry is cost_per_time iff the same step is logged WORKING and 0 "
    "otherwise; team = sum over members, workplace = sum over facilities, organization = teams + workplaces (syntactic equalities, same summation order as the code), "
    "project cost list = organization's; everything is 0 at project-wide absence steps; and (up to Qeq) total project cost = sum over resources of rate x number of "
    "steps logged WORKING (double-sum exchange).",
    "note": COMMON_NOTE + " Costs are modelled as exact rationals; the correspondence compares them on dyadic inputs where binary64 is exact.",
    "technique": "Coq proof: logs as maps over a ghost history, induction over the run + finite-sum algebra over Q; model/implementation correspondence on all cost logs and resource state logs"}
CHECKS["C08"] = {"text": "Proved on the model: after a run with log initialisation every log of every object equals the map of its row function over the recorded rows of the "
    "run's trace (entry k = live value when step k was recorded, with the display rule), their common length is project.time; a run without log initialisation appends "
    "its rows; reverse_log_information turns every log into the map over the REVERSED history (alignment kept, live values untouched); the alignment (all logs of length project.time) holds after ANY sequence of "
    "simulate / initialize / reverse_log_information calls with any flags and options, and after backward_simulate (Model/BackwardRun.v: inner run on the reversed configuration extended by the due-time helper tasks, "
    "then the optional log reversal). The model is tied to the code by the full-state correspondence after every operation of random operation sequences over all five kinds of operation.",
    "note": COMMON_NOTE,
    "technique": "Coq proof: logs as maps over a ghost history, induction over traces and over operation sequences (simulate, initialize, reverse_log, backward); oracle + full-state correspondence on operation sequences through the extracted driver"}
CHECKS["C02"] = {"text": "Proved on the model for every configuration, option set and run length: in the perform phase a WORKING task loses exactly the contribution of "
    "what is allocated to it (unit rate for automatic tasks; sum of worker skills; worker x paired facility skill; nothing from a resource without skill or in ABSENCE; "
    "at absence steps only automatic tasks and only with the flag), every other task and every other phase leaves remaining work unchanged except that __update sets it to 0 "
    "for the tasks it finishes; a task is finished only when its remaining work is below the tolerance; after __update no WORKING task with exhausted work has an open finish gate "
    "(fixpoint of the finishing pass, fuel of the model's loop shown sufficient); FINISHED tasks report 0 (exempt ones excepted) in every snapshot; initial value work*(1-progress); "
    "the log entry is the live value at record time.",
    "note": COMMON_NOTE + " The division of a worker's skill by its number of WORKING assigned tasks is kept in the model as in the code; that this number is 1 follows from C03's exclusivity.",
    "technique": "Coq proof: phase-by-phase characterisation + inductive invariant + termination measure for the finishing fixpoint; model/implementation correspondence (remaining work, states, allocations at all phases)"}
CHECKS["C03"] = {"text": "Proved on the model (for well-formed resource ids, every configuration, option set, run length): the allocation structure invariant AInv holds in every "
    "observer snapshot and in the returned state -- a task lists a worker/facility iff that worker/facility lists the task, every worker and facility is assigned to at most "
    "one task, no duplicates, only READY/WORKING tasks hold resources; finishing a task releases everything it held (workers/facilities become FREE with empty assignment); the id "
    "logs are the live lists at record time; (d) in every allocated / performed / recorded snapshot of every freshly initialised run each worker and facility is ABSENCE exactly when the step is a "
    "project-wide absence step or in its own absence list, and otherwise WORKING exactly when it holds a task (FREE when it holds none) -- proved through the absence refresh, __allocate (states untouched, "
    "only FREE resources get tasks) and check_working (closed form per resource via its unique holder). The oracle checks all clauses on implementation traces; the correspondence compares all resource states at every phase.",
    "note": COMMON_NOTE,
    "technique": "Coq proof: inductive invariant through check_finished / __allocate (fold invariants with a free-list invariant) / check_working + oracle and correspondence on allocation lists and resource states"}
CHECKS["C04"] = {"text": "Proved on the model: every worker newly allocated to a task in a step has a positive skill for it, belongs to a team assigned to it, is FREE after the step's "
    "absence refresh (hence not absent), and is in the task's fixed worker list when there is one; every newly allocated facility has a positive skill, belongs to a workplace "
    "assigned to the task, is FREE and in the fixed facility list when given; nothing is allocated at a project-wide absence step; in every snapshot of every run a solo-working "
    "worker or facility is never combined with another one on a task, and for facility tasks workers and facilities are paired by position with the worker able to operate the "
    "facility. Method: an induction principle for __allocate (Proofs/AllocStruct.v) instantiated with the eligibility and solo/pair predicates.",
    "note": COMMON_NOTE,
    "technique": "Coq proof: induction principle for __allocate + inductive invariant over runs; oracle on new allocations + correspondence of allocation lists at updated/allocated"}
CHECKS["C05"] = {"text": "Proved on the model: simulate is total; no snapshot other than the final update has a step index >= max_time and at most max_time - start time steps are recorded; "
    "status is FINISHED_SUCCESS iff all tasks are FINISHED, FINISHED_FAILURE only with time >= max_time, and one of the two is always reported; a non-automatic non-exempt task that no worker "
    "can serve (skill, team, fixed list) is never allocated, never WORKING/FINISHED, and the run does not report success. LIVENESS is proved for the class: acyclic network with any mix of the four dependency kinds where a task with an incoming FF/SF link has workers of its own (a worker skilled for it is skilled for nothing else), no facilities or components, "
    "every non-automatic task has an eligible worker (skill, team, fixed ids), positive lower bound delta on skills and automatic rates, all absences before a horizon H: every freshly initialised run reports "
    "FINISHED_SUCCESS whenever max_time >= H + sum over tasks of (1 + ceil(work x (1 - progress) / delta)), for every priority rule, team structure, solo flag and task order (a natural-number measure over the unfinished "
    "tasks never grows and drops in every step after H). Outside that class (facilities, placement) liveness is searched by the oracle on a feasible stream; it is the clause that found the SS/SF gate defects.",
    "note": COMMON_NOTE + " PARTIAL: liveness outside the stated class is searched. 'simulate always returns' for the implementation (runtime exceptions) can only be searched.",
    "technique": "Coq proof: induction over the trace shape + stuck-task invariant + liveness by a decreasing measure (least-rank unfinished task, greedy allocation maximality, resource-state invariant); oracle search on the feasible stream; correspondence on time/status/task states"}
CHECKS["C06"] = {"text": "Proved on the model: (a) after __update no task with an open ready gate is NONE; (b) an automatic task without component that is READY after __update is WORKING after the "
    "allocation phase of every step in which tasks may start; (c) after __allocate of a working step no worker that was FREE and received nothing can still be added to any candidate task it is eligible for: "
    "for tasks without facility can_add_resources(t, w) is False in the state reached, for tasks that need a facility can_add_resources(t, w, f) is False for every facility f that was FREE, has the skill "
    "and belongs to the workplace at which the task's component sat when the task was served (greedy allocation in priority order; refusals are monotone while allocation lists only grow); (d) after __update no "
    "WORKING task with exhausted work has an open finish gate, whatever the task list order (finishing fixpoint). The oracle searches clause (c) on the implementation with the final placement of the component "
    "(contention / pairs / crossing streams).",
    "note": COMMON_NOTE + " The pair clause is stated relative to the workplace of the component at service time (a later task of the same assembly may still move it within the step).",
    "technique": "Coq proof: completeness of check_ready / finishing fixpoint / closed form of check_working / maximality of the greedy allocation (workers and worker-facility pairs); oracle for the idle-worker clause; correspondence on states, allocations, placements"}
CHECKS["C10"] = {"text": "Proved on the model: at a project-wide absence step nothing is allocated, assigned or moved, no non-automatic task progresses, an automatic WORKING task loses exactly its unit rate iff "
    "the flag is set, nothing starts unless the flag is set; at every non-working row of the history all workers and facilities are logged ABSENCE and all cost entries at all levels are 0; a resource in "
    "state ABSENCE contributes 0 progress and costs 0, and the absence refresh of a working step sets ABSENCE exactly for the listed steps. DELETION clause proved for the task priority rules that do not read "
    "PERT values (SPT, LPT, LRPT, SRPT, LWRPL, SWRPL) on any network, for EST on ANY network (cyclic or not, all four dependency kinds, tasks held WORKING below zero remaining work by FF/SF links included: every earliest start time shifts by the number of absence steps, Proofs/PertEst.v) and for TSLACK on finish-to-start DAGs with non-negative work (all critical-path values shift by the number of absence steps, so slack and the order by EST are unchanged), with the auto-task flag off (or on when the project has no automatic task), no individual absence lists, disjoint component trees, a fresh run that succeeds: remove_absence_time_list applied to the result "
    "of the run with ANY absence list (any order, duplicates, steps beyond the end) has the same time, status, live state and the same logs and cost lists at every level as the run without absence (lock-step "
    "simulation on the behaviour-relevant key of the state: every phase computes the key of its result from the key of its argument, an absence step is a stutter, __update is idempotent on the key; "
    "popping sorted(set(L)) from a log keeps exactly the entries at unlisted positions); PERT scratch values are not compared. at run level an individually absent worker or facility is ABSENCE in every allocated / performed / recorded snapshot of the step and so contributes and costs nothing. PARTIAL: the "
    "deletion clause for TSLACK on networks with SS/FF/SF links and for FIFO, is searched by the oracle; for FIFO the clause is false: a recorded finding (known_findings.json) and, on the model, the theorem C10_deletion_refuted_for_FIFO (a three-task witness evaluated by vm_compute; the same case is in the corpus for the implementation).",
    "note": COMMON_NOTE.replace("no axioms (Print Assumptions: closed under the global context)", "the deletion theorem uses one standard-library axiom, functional_extensionality_dep (through the idempotence of __update); the other C10 theorems are closed under the global context") +
            " PARTIAL: deletion clause searched for rules 0, 1 outside FS DAGs and for rule 4; KNOWN FINDING C10/f-fifo.",
    "technique": "Coq proof: phase characterisations + ghost-history log representation + key congruence / stutter simulation between the two runs; oracle (incl. deletion vs absence-free run) + full-state correspondence"}
CHECKS["C11"] = {"text": "Proved on the model: sort_task_list (9 rules), sort_worker_list (MW/SSP/VC/HSV, with and without target workplace; main workplace compared by value), "
    "sort_facility_list (all four rule values, MW keeps the order) and sort_workplace_list (FSS/SSP) each return a permutation of the input that is sorted by the documented key and "
    "stable on ties (generic theorems about the model's stable insertion sort for total preorders; lexicographic triples for resources, a missing HSV entry sorts last). The key functions and call "
    "sites are tied to the code by evaluating the model's sort functions (vm_compute) on the orders the real functions return for arbitrary lists with ties, missing entries and "
    "equal-but-distinct ID strings, and by the simulation correspondence under all rules. No inversion in allocation is proved: when a task is handed to the allocation block every earlier task in priority order is sated with respect to the free list -- no eligible worker of it (tasks without facility), no pair of an eligible worker and a FREE eligible facility of the workplace where its component was served (tasks with facility) can still be added; the oracle searches inversions on the implementation. "
    "CPython's sorted() is trusted to be a stable sort.",
    "note": COMMON_NOTE + " Pure sort correspondence by generated cases files (no extraction).",
    "technique": "Coq proof (stable insertion sort: permutation, sortedness, stability) + vm_compute correspondence on pure lists + greedy-prefix theorem for allocation (workers and worker-facility pairs) + oracle for allocation inversions"}
CHECKS["C09"] = {"text": "Proved on the model: a run with state and log initialisation is a function of configuration and options only -- simulate c o s = simulate c o s' for ALL incoming "
    "states, hence calling simulate again on a simulated project gives the identical result and no hidden state survives; the set of finished top-level components, the set of NONE tasks and the target set of __check_working may "
    "be visited in any order with the same result (pairwise commuting visits) (finishing and both PERT passes iterate ordered lists since the repairs). The parts that live in the Python runtime are covered by the harness: "
    "forced set-visit orders (5 per case), re-simulation on the same object, default-argument calls on a fresh object after a log edit, and fresh processes with other PYTHONHASHSEED and shifted heap.",
    "note": COMMON_NOTE.replace("no axioms (Print Assumptions: closed under the global context)", "one standard-library axiom: functional_extensionality_dep (used to state order independence as equality of states)") +
            " PARTIAL: the process-level clauses (hash seed, heap layout, fresh process) are exercised by the harness, not proved.",
    "technique": "Coq proof (independence of the incoming state; commuting folds over permutations) + harness: forced visit orders, rerun, fresh processes"}
CHECKS["C20"] = {"text": "Proved on the model: configuring from a successfully simulated project sets the work amount to its duration (minus the number of distinct absence steps inside the run when "
    "they are removed), takes over its unit time, and the unit rate becomes parent unit / sub-project unit; configuring from any other project is refused with a warning and changes nothing; an automatic "
    "task that starts with remaining work d and unit rate r is WORKING for exactly ceil(d/r) working steps (0 for d = 0) for all d >= 0, r > 0 on a grid with no positive remainder below the finishing "
    "tolerance, and that grid condition holds for whole-step durations and unit ratios pu/su with su <= 1e10; in the simulation an automatic WORKING task loses exactly its rate per working step and is never "
    "given workers or facilities; run level: in every run (auto-task-while-absent flag off) such a task -- automatic, not bound to a component, no FF/SF predecessors -- from the first loop state in which it is READY or "
    "WORKING with remaining work x >= 1e-10 until it is FINISHED is logged WORKING at exactly steps_working x rate (= ceil(x/rate)) working steps: it starts at the first working step at which it is READY, performs at every "
    "working step, waits at absence steps and is FINISHED at the update after the last one. The oracle checks the parent run on the implementation (dyadic and non-dyadic unit pairs).",
    "note": COMMON_NOTE + " Configuration outcomes are compared with the model by generated cases files (vm_compute); sub-project tasks inside the parent run are modelled as automatic tasks.",
    "technique": "Coq proof (configuration arithmetic; least-n / ceiling characterisation with Qceiling; per-step progress) + oracle on parent runs + vm_compute correspondence of configure/set_rate"}
CHECKS["C18"] = {"text": "Model/LogEdit.v mirrors remove_absence_time_list / insert_absence_time_list of the project and of every class below it. Proved for every configuration, every aligned "
    "project state and ANY list of step indices (step 0, repeated elements, already listed steps, steps beyond the end): both editors keep every log of every object at one common length and set project.time to it, "
    "also along any sequence of remove/insert calls; every log changes by the same number of entries; inserting into an absence-free result and removing again restores every log, project.time and the empty "
    "absence list; an inserted entry has cost 0 / repeats the previous remaining work and allocation (initial value at step 0) and is not disturbed by later insertions. The model is tied to the code by the "
    "correspondence on full dumps (all logs, time, absence list) after every operation of random edit sequences (20 000 sequences in the thorough tier). 'Without error' for the implementation is searched.",
    "note": COMMON_NOTE + " An inserted 'no allocation' entry is None in the code and [] in the model (canonicalised before comparison). Sub-project tasks are covered by the oracle only.",
    "technique": "Coq proof (list-edit algebra: cancellation, length function, record-wise guards) + model/implementation correspondence on edit sequences through the extracted driver"}
CHECKS["C17"] = {"text": "Model/Backward.v mirrors the structural part of backward_simulate (reverse_dependencies of workflow and organization, helper auto tasks spliced in before tail tasks "
    "with an earlier due time, the finally-block that removes the helpers and reverses again). Proved for every graph without duplicate list entries, every due-time assignment, both settings of "
    "considering_due_time_of_tail_tasks and ANY order of removing the helpers (the code iterates over a set): task list, every input list, every output list of a real task and every workplace list are restored "
    "element for element in the same order, no helper stays listed; the result does not depend on whether the inner run returned or raised (C17_crash_irrelevant). A later forward simulate equals a fresh one "
    "(from C09's independence of the incoming state). In the logs of any run an FS successor is never logged WORKING at or before a step where its predecessor is logged WORKING (Inv of C01 on the ghost history of C08), "
    "the reversed configuration has exactly the reversed edges, and reversing equal-length logs swaps the order; for the model of the whole call (Model/BackwardRun.v) the time-reversed logs show an FS predecessor WORKING only "
    "strictly before its successor (for links recorded in the predecessor's output list; for a link declared in the successor's input list only the statement is false in model and code alike: theorem C17_backward_order_refuted_for_input_only_links and the recorded finding C17/order-onesided) and every log has one entry per step. The structure model is tied to the code by vm_compute correspondence on the structure recorded before, "
    "inside (first observer call of the inner run) and after the call; object identity of the list objects, the exception paths and the later forward run are searched by the oracle with an exception injected at (step, phase).",
    "note": COMMON_NOTE + " Object identity of the list objects and the exception paths are outside the model (searched by the oracle with injected exceptions); the whole call incl. reverse_log_information is modelled and compared with "
    "the implementation on full dumps.",
    "technique": "Coq proof (exact-list invariant for helper insertion/removal in any order, involutive reversal; FS log order by C01 invariant over the C08 ghost history) + vm_compute correspondence of the structure before/inside/after + oracle with injected exceptions"}
CHECKS["C16"] = {"text": "harness/schema.py translates the save format of the CURRENT source into coq/Gen/Schema.v on every run (fail-closed Python-ast translator): per class the keys written by "
    "export_dict_json_data / write_simple_json with the shape of each value expression, the constructor arguments read back in read_json_data / read_simple_json with the shape of each conversion, the attribute each "
    "constructor parameter is stored in, and the ID->object relinking pass. Proved: a schema accepted by schema_ok round-trips (export (import (export o)) = export o, same keys in the same order) for ANY object and "
    "ANY conversions satisfying write(read(write v)) = write v per compatible shape pair; the schema generated from the current source is accepted for all 11 saved classes (vm_compute over the finite schema, stated "
    "as a forallb theorem); every constructor parameter outside an explicit exempt list (back references, additional-work / quality / error bookkeeping read by no base-class method) is read from the file and every "
    "key read is written. The conversion law is discharged for a concrete reading of the shapes (Model/JsonConcrete.v: JSON values, enum members, object references looked up by ID in the project being read, "
    "timedeltas, datetimes with microseconds, nested objects; int(), float(), x.ID, str(total_seconds()), strftime and their readers, including lossy conversions and ill-typed values), giving the unconditional "
    "theorem C16_roundtrip_concrete; the writer side of that reading is compared with the Python expressions on sample values by vm_compute. The translator is tied to the running code by comparing the keys of every node of every saved document with the generated schema. Reference resolution, value-for-value equality of real files "
    "at four life stages, re-simulation of the restored project and 'writing never fails' are searched by the oracle.",
    "note": COMMON_NOTE + " PARTIAL: the per-shape conversions are modelled (JsonConcrete.v), their writer side compared with Python on samples; the reader side and uniqueness of IDs are exercised by the oracle's "
    "write/read/write comparison, not proved about Python; re-simulation equality (c) is the oracle plus C09/C15 on the model side.",
    "technique": "Coq proof over a schema regenerated from the source by a Python-ast translator (generic round-trip theorem + vm_compute acceptance of the generated schema) + schema/runtime key correspondence + round-trip oracle at four life stages"}
CHECKS["C12"] = {"text": "The model's update_pert (forward pass, critical path length, backward pass: frontier lists, relaxation with the code's comparison directions and the -1 sentinel, fuel) is proved to compute the CPM "
    "recurrences for EVERY finish-to-start DAG (any shape, heads, tails, zero remaining work; acyclicity given as a topological rank), EVERY time t and EVERY state with non-negative remaining work: ES = t at heads, "
    "ES = max EF of the predecessors (upper bound for all, attained by one), EF = ES + remaining, CPL = max EF (attained at a tail), LF = CPL at tails, LF = min LS of the successors, LS = LF - remaining; slack >= 0 "
    "everywhere, zero at the CPL-defining tail, and every zero-slack task has a zero-slack predecessor finishing at its start (a critical path). The frontier iteration never runs out of fuel (generic worklist theorem). "
    "Run level: the recurrences hold in every `updated` snapshot of every freshly initialised run (non-negative remaining work is proved as a run invariant, using C02's completeness of check_finished) and after the "
    "update inside initialize. The model is tied to the code by the correspondence on est/eft/lst/lft/critical_path_length at every snapshot; an independent topological CPM oracle searches simulated runs and direct "
    "sequences of progress updates + update_PERT_data(t). For a dependency declared in the successor's input list only (no mirrored output entry) the code's PERT passes miss the link: recorded finding C12/onesided (known_findings.json, corpus/C12/onesided_link.json); the theorems assume mirrored lists (fs_dag) and are unaffected.",
    "note": COMMON_NOTE,
    "technique": "Coq proof (generic frontier/worklist invariant with rank-based termination, instantiated for the forward and backward pass; Q arithmetic by lra) + model/implementation correspondence of PERT fields + independent CPM oracle"}
CHECKS["C15"] = {"text": "Proved for every ACYCLIC model (any mix of the four dependency kinds, any resources, rules, absences, components on disjoint trees), every incoming state of a freshly initialised or placement-consistent "
    "project, every pause step k (beyond the makespan included) and every final max_time m >= k: the run resumed from the state returned by the paused run (initialize_state_info = initialize_log_info = False, proved to leave the "
    "state untouched) returns exactly the state of the uninterrupted run -- all logs, costs, time, status and live state -- with NO side condition (C15_pause_resume_any_acyclic_model). Ingredients: no phase reads project.status "
    "(35 commutation lemmas), the loop is deterministic, the trace splits at the pause point, __update is idempotent on its own result: finishing pass, component states, removal, ready check proved directly; the PERT refresh "
    "for EVERY state, including negative remaining work of tasks held back by FF/SF links (a relaxation of the forward pass can then fail and a stale earliest-finish value can be read: two runs are compared in lock step with a "
    "ghost recording which edge set each node last and what its source looked like; at the end of the frontier iteration that source is unchanged, so the final value is the same function of the source's final value in both runs). "
    "For arbitrary (possibly cyclic) models the theorem with the idempotence of the PERT refresh as a hypothesis remains. The model is tied to the code by the full-state correspondence on a paused+resumed operation sequence and by a "
    "second __update call from the observer at every step of every explored run; pause at EVERY k in 0..makespan and the route through a JSON file are searched by the oracle.",
    "note": COMMON_NOTE + " Uses functional_extensionality_dep (states are records of functions). The JSON route relies on C16.",
    "technique": "Coq proof (status-independence of every phase, determinism and trace splitting, idempotence of __update incl. a relational two-run argument with a ghost for the PERT passes) + per-run validation of idempotence on the implementation + model/implementation correspondence on pause+resume + oracle pausing at every step, in memory and through JSON"}
CHECKS["C13"] = {"text": "Proved for every product that is a forest (flat and nested; no component reached twice), every configuration, options and run: (a) in every snapshot a workplace lists a component exactly "
    "when the component reports being placed there and no component is listed twice (so at most one workplace); (b),(c),(d) a component is put somewhere only if no component of its assembly has moved in this step, has a "
    "WORKING task or holds a resource, every component of the assembly comes from nowhere or from an input workplace the target declares, and its size minus 1e-8 is below the free space -- then exactly its assembly moves; "
    "the moved list of one __allocate never contains a component twice; perform/record do not touch placement; (e) after __update no component of an assembly whose tasks are all FINISHED is placed; (f) in every snapshot "
    "a task only holds facilities of the workplace where its component is placed; (b) run-level capacity bound in every snapshot of every run: space used < capacity + 1e-8 for flat products, and for nested products the "
    "same bound on the top-most placed components (descendants of descendants being descendants). The model is tied to the code by the correspondence on "
    "component states, placements, workplace lists and their logs at every snapshot; the oracle checks all clauses incl. nested capacity on the implementation.",
    "note": COMMON_NOTE + " The 1e-8 space tolerance of can_put appears in the capacity bound; the nested bound assumes tree_trans (true whenever the depth of the product does not exceed the number of components).",
    "technique": "Coq proof (placement-record invariant through detach/attach on forests, set_placed_comp/tree correspondence, invariant principle for __allocate with the moved list, facility-site invariant, capacity invariant for flat and nested products) + model/implementation correspondence of placement fields + oracle"}
NOT_APPLICABLE = {}

#!/usr/bin/env python3
"""(re)generate MANIFEST.json from tools/manifest_data.py"""
import json, os, sys
sys.path.insert(0, os.path.dirname(__file__))
from manifest_data import CHECKS, NOT_APPLICABLE, NOTES
props = [json.loads(l) for l in open('/verif/properties.jsonl')]
m = {
 "version": 1,
 "setup_cmd": "make -C /verif setup",
 "hooks": {"guard": "PDESY_VERIF",
           "enable": "PDESY_VERIF=1 in the environment of ./check; the harness attaches project._verif_observer, called at the four phase boundaries of simulate()",
           "baseline_off_cmd": "cd /repo && env -u PDESY_VERIF /venv/bin/python -m pytest -ra -q -p no:cacheprovider --timeout=900 --continue-on-collection-errors",
           "source_commits": ["53ab1f9"], "add_only": True},
 "engines": [{"name": "coq-model", "path": "/verif/coq",
              "serves_properties": sorted(CHECKS),
              "kind_free_text": "hand-written executable Gallina model of the simulator + theorems (Coq 8.16.1, full .vo build); tied to /repo on every run by (i) a differential correspondence check: the model, extracted to OCaml (driver/), and the real implementation run on the same generated cases and are compared field by field at every phase of every step, and (ii) Python statements of the properties evaluated on the implementation traces to search for concrete failing inputs"}],
 "checks": [], "not_applicable": [], "notes": NOTES}
for p in props:
    pid = p["id"]
    if pid in CHECKS:
        c = CHECKS[pid]
        m["checks"].append({
            "property_id": pid,
            "quick_cmd": "./check %s --tier quick" % pid,
            "thorough_cmd": "./check %s --tier thorough" % pid,
            "evidence_file": "/verif/evidence/%s.json" % pid,
            "replay_cmd_template": "./check %s --replay {path}" % pid,
            "engine": "coq-model",
            "level_claimed": {"category": "proof", "text": c["text"], "design_ref": "DESIGN.md section 6, %s" % pid},
            "level_note": c["note"],
            "technique": c["technique"]})
    elif pid in NOT_APPLICABLE:
        m["not_applicable"].append({"property_id": pid, "reason": NOT_APPLICABLE[pid]})
    else:
        raise SystemExit("manifest_data.py has neither a CHECKS entry nor a NOT_APPLICABLE reason for %s" % pid)
json.dump(m, open('/verif/MANIFEST.json', 'w'), indent=1)
print("claimed:", sorted(CHECKS))

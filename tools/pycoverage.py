#!/venv/bin/python
"""Development aid (not a check): which lines of pDESy/model/*.py do the quick-tier
inputs of the harness execute?  Runs every property's harness in-process (no
worker pool) under coverage.py and prints, per source file, the functions with
lines that were never executed.  Used to find holes in the generated inputs
(round 3 of the seeded changes showed that this is where misses come from).
usage: PYTHONPATH=/repo:/verif PDESY_VERIF=1 /venv/bin/python tools/pycoverage.py [N] [Cxx ...]"""
import ast, importlib, os, sys, tempfile, json
import coverage

def main():
    n = int(sys.argv[1]) if len(sys.argv) > 1 and sys.argv[1].isdigit() else 120
    pids = [a for a in sys.argv[1:] if a.startswith("C")] or ["C%02d" % i for i in range(1, 21)]
    cov = coverage.Coverage(source=["/repo/pDESy/model"], branch=False, data_file=None)
    cov.start()
    from harness import simcheck, common as C
    C.ensure_dirs()
    def run_seq(ctx, modname, cases, procs=1):
        return [simcheck._worker((ctx["pid"], modname, c, i)) for i, c in enumerate(cases[:n])]
    simcheck.run_cases = run_seq
    for pid in pids:
        mod = importlib.import_module("harness.props." + pid.lower())
        ctx = {"pid": pid, "tier": "quick", "seed": 1, "work": tempfile.mkdtemp(prefix="cov-" + pid)}
        try:
            mod.run(ctx)
        except Exception as e:            # summaries may complain about truncated result lists
            print("note:", pid, type(e).__name__, str(e)[:100], file=sys.stderr)
    cov.stop()
    out = {}
    for f in sorted(cov.get_data().measured_files()):
        _, stmts, _, missing, _ = cov.analysis2(f)
        if not missing:
            continue
        tree = ast.parse(open(f).read())
        funcs = []
        for node in ast.walk(tree):
            if isinstance(node, (ast.FunctionDef, ast.AsyncFunctionDef)):
                funcs.append((node.lineno, node.end_lineno, node.name))
        per = {}
        for ln in missing:
            name = "<module>"
            best = None
            for a, b, nm in funcs:
                if a <= ln <= b and (best is None or a > best[0]):
                    best = (a, nm)
            if best:
                name = best[1]
            per.setdefault(name, []).append(ln)
        out[os.path.basename(f)] = (len(stmts), len(missing), per)
    for f, (ns, nm, per) in out.items():
        print("== %s: %d of %d statements never executed" % (f, nm, ns))
        for name, lns in sorted(per.items(), key=lambda kv: kv[1][0]):
            print("   %-45s %s" % (name, lns if len(lns) <= 12 else (lns[:12] + ["...%d more" % (len(lns) - 12)])))

if __name__ == "__main__":
    main()
